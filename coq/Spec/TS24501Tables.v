(* Pinned element tables of TS 24.501 v15.x section 8.2 / 8.3: for every message the ordered information
   elements with presence/format (V, LV, LV-E, T, TV, TLV, TLV-E), identifier and length bounds
   (bounds on the value part, i.e. without identifier and length octets).
   Transcribed once (cross-checked against the repository's own Min*/Max* test vectors, which were
   written from the 3GPP tables: each vector decodes and every element length equals the minimum
   resp. maximum given here).  NEVER regenerated from the code: it is the specification side of C04. *)
From NV Require Import Lib.Base Codec.SpecTable.
From Coq Require Import String.
Open Scope string_scope.
Open Scope N_scope.

Definition ts24501_tables : list (string * list spec_slot) :=
[("AuthenticationFailure",
         [{| ss_name := "ExtendedProtocolDiscriminator"; ss_fmt := FV 1; ss_iei := 0; ss_min := 1; ss_max := 1; ss_set := [] |};
          {| ss_name := "SpareHalfOctetAndSecurityHeaderType"; ss_fmt := FV 1; ss_iei := 0; ss_min := 1; ss_max := 1; ss_set := [] |};
          {| ss_name := "AuthenticationFailureMessageIdentity"; ss_fmt := FV 1; ss_iei := 0; ss_min := 1; ss_max := 1; ss_set := [] |};
          {| ss_name := "Cause5GMM"; ss_fmt := FV 1; ss_iei := 0; ss_min := 1; ss_max := 1; ss_set := [] |};
          {| ss_name := "AuthenticationFailureParameter"; ss_fmt := FTLV; ss_iei := 48; ss_min := 14; ss_max := 14; ss_set := [] |}]);
        ("AuthenticationReject",
         [{| ss_name := "ExtendedProtocolDiscriminator"; ss_fmt := FV 1; ss_iei := 0; ss_min := 1; ss_max := 1; ss_set := [] |};
          {| ss_name := "SpareHalfOctetAndSecurityHeaderType"; ss_fmt := FV 1; ss_iei := 0; ss_min := 1; ss_max := 1; ss_set := [] |};
          {| ss_name := "AuthenticationRejectMessageIdentity"; ss_fmt := FV 1; ss_iei := 0; ss_min := 1; ss_max := 1; ss_set := [] |};
          {| ss_name := "EAPMessage"; ss_fmt := FTLVE; ss_iei := 120; ss_min := 4; ss_max := 1500; ss_set := [] |}]);
        ("AuthenticationRequest",
         [{| ss_name := "ExtendedProtocolDiscriminator"; ss_fmt := FV 1; ss_iei := 0; ss_min := 1; ss_max := 1; ss_set := [] |};
          {| ss_name := "SpareHalfOctetAndSecurityHeaderType"; ss_fmt := FV 1; ss_iei := 0; ss_min := 1; ss_max := 1; ss_set := [] |};
          {| ss_name := "AuthenticationRequestMessageIdentity"; ss_fmt := FV 1; ss_iei := 0; ss_min := 1; ss_max := 1; ss_set := [] |};
          {| ss_name := "SpareHalfOctetAndNgksi"; ss_fmt := FV 1; ss_iei := 0; ss_min := 1; ss_max := 1; ss_set := [] |};
          {| ss_name := "ABBA"; ss_fmt := FLV; ss_iei := 0; ss_min := 2; ss_max := 255; ss_set := [] |};
          {| ss_name := "AuthenticationParameterRAND"; ss_fmt := FTV 16; ss_iei := 33; ss_min := 16; ss_max := 16; ss_set := [] |};
          {| ss_name := "AuthenticationParameterAUTN"; ss_fmt := FTLV; ss_iei := 32; ss_min := 16; ss_max := 16; ss_set := [] |};
          {| ss_name := "EAPMessage"; ss_fmt := FTLVE; ss_iei := 120; ss_min := 4; ss_max := 1500; ss_set := [] |}]);
        ("AuthenticationResponse",
         [{| ss_name := "ExtendedProtocolDiscriminator"; ss_fmt := FV 1; ss_iei := 0; ss_min := 1; ss_max := 1; ss_set := [] |};
          {| ss_name := "SpareHalfOctetAndSecurityHeaderType"; ss_fmt := FV 1; ss_iei := 0; ss_min := 1; ss_max := 1; ss_set := [] |};
          {| ss_name := "AuthenticationResponseMessageIdentity"; ss_fmt := FV 1; ss_iei := 0; ss_min := 1; ss_max := 1; ss_set := [] |};
          {| ss_name := "AuthenticationResponseParameter"; ss_fmt := FTLV; ss_iei := 45; ss_min := 16; ss_max := 16; ss_set := [] |};
          {| ss_name := "EAPMessage"; ss_fmt := FTLVE; ss_iei := 120; ss_min := 4; ss_max := 1500; ss_set := [] |}]);
        ("AuthenticationResult",
         [{| ss_name := "ExtendedProtocolDiscriminator"; ss_fmt := FV 1; ss_iei := 0; ss_min := 1; ss_max := 1; ss_set := [] |};
          {| ss_name := "SpareHalfOctetAndSecurityHeaderType"; ss_fmt := FV 1; ss_iei := 0; ss_min := 1; ss_max := 1; ss_set := [] |};
          {| ss_name := "AuthenticationResultMessageIdentity"; ss_fmt := FV 1; ss_iei := 0; ss_min := 1; ss_max := 1; ss_set := [] |};
          {| ss_name := "SpareHalfOctetAndNgksi"; ss_fmt := FV 1; ss_iei := 0; ss_min := 1; ss_max := 1; ss_set := [] |};
          {| ss_name := "EAPMessage"; ss_fmt := FLVE; ss_iei := 0; ss_min := 4; ss_max := 1500; ss_set := [] |};
          {| ss_name := "ABBA"; ss_fmt := FTLV; ss_iei := 56; ss_min := 2; ss_max := 255; ss_set := [] |}]);
        ("ConfigurationUpdateCommand",
         [{| ss_name := "ExtendedProtocolDiscriminator"; ss_fmt := FV 1; ss_iei := 0; ss_min := 1; ss_max := 1; ss_set := [] |};
          {| ss_name := "SpareHalfOctetAndSecurityHeaderType"; ss_fmt := FV 1; ss_iei := 0; ss_min := 1; ss_max := 1; ss_set := [] |};
          {| ss_name := "ConfigurationUpdateCommandMessageIdentity"; ss_fmt := FV 1; ss_iei := 0; ss_min := 1; ss_max := 1; ss_set := [] |};
          {| ss_name := "ConfigurationUpdateIndication"; ss_fmt := FT1; ss_iei := 13; ss_min := 1; ss_max := 1; ss_set := [] |};
          {| ss_name := "GUTI5G"; ss_fmt := FTLVE; ss_iei := 119; ss_min := 11; ss_max := 11; ss_set := [] |};
          {| ss_name := "TAIList"; ss_fmt := FTLV; ss_iei := 84; ss_min := 7; ss_max := 112; ss_set := [] |};
          {| ss_name := "AllowedNSSAI"; ss_fmt := FTLV; ss_iei := 21; ss_min := 2; ss_max := 72; ss_set := [] |};
          {| ss_name := "ServiceAreaList"; ss_fmt := FTLV; ss_iei := 39; ss_min := 4; ss_max := 112; ss_set := [] |};
          {| ss_name := "FullNameForNetwork"; ss_fmt := FTLV; ss_iei := 67; ss_min := 1; ss_max := 255; ss_set := [] |};
          {| ss_name := "ShortNameForNetwork"; ss_fmt := FTLV; ss_iei := 69; ss_min := 1; ss_max := 255; ss_set := [] |};
          {| ss_name := "LocalTimeZone"; ss_fmt := FTV 1; ss_iei := 70; ss_min := 1; ss_max := 1; ss_set := [] |};
          {| ss_name := "UniversalTimeAndLocalTimeZone"; ss_fmt := FTV 7; ss_iei := 71; ss_min := 7; ss_max := 7; ss_set := [] |};
          {| ss_name := "NetworkDaylightSavingTime"; ss_fmt := FTLV; ss_iei := 73; ss_min := 1; ss_max := 1; ss_set := [] |};
          {| ss_name := "LADNInformation"; ss_fmt := FTLVE; ss_iei := 121; ss_min := 0; ss_max := 1712; ss_set := [] |};
          {| ss_name := "MICOIndication"; ss_fmt := FT1; ss_iei := 11; ss_min := 1; ss_max := 1; ss_set := [] |};
          {| ss_name := "NetworkSlicingIndication"; ss_fmt := FT1; ss_iei := 9; ss_min := 1; ss_max := 1; ss_set := [] |};
          {| ss_name := "ConfiguredNSSAI"; ss_fmt := FTLV; ss_iei := 49; ss_min := 2; ss_max := 144; ss_set := [] |};
          {| ss_name := "RejectedNSSAI"; ss_fmt := FTLV; ss_iei := 17; ss_min := 2; ss_max := 40; ss_set := [] |};
          {| ss_name := "OperatordefinedAccessCategoryDefinitions"; ss_fmt := FTLVE; ss_iei := 118; ss_min := 0; ss_max := 65535; ss_set := [] |};
          {| ss_name := "SMSIndication"; ss_fmt := FT1; ss_iei := 15; ss_min := 1; ss_max := 1; ss_set := [] |}]);
        ("ConfigurationUpdateComplete",
         [{| ss_name := "ExtendedProtocolDiscriminator"; ss_fmt := FV 1; ss_iei := 0; ss_min := 1; ss_max := 1; ss_set := [] |};
          {| ss_name := "SpareHalfOctetAndSecurityHeaderType"; ss_fmt := FV 1; ss_iei := 0; ss_min := 1; ss_max := 1; ss_set := [] |};
          {| ss_name := "ConfigurationUpdateCompleteMessageIdentity"; ss_fmt := FV 1; ss_iei := 0; ss_min := 1; ss_max := 1; ss_set := [] |}]);
        ("DLNASTransport",
         [{| ss_name := "ExtendedProtocolDiscriminator"; ss_fmt := FV 1; ss_iei := 0; ss_min := 1; ss_max := 1; ss_set := [] |};
          {| ss_name := "SpareHalfOctetAndSecurityHeaderType"; ss_fmt := FV 1; ss_iei := 0; ss_min := 1; ss_max := 1; ss_set := [] |};
          {| ss_name := "DLNASTRANSPORTMessageIdentity"; ss_fmt := FV 1; ss_iei := 0; ss_min := 1; ss_max := 1; ss_set := [] |};
          {| ss_name := "SpareHalfOctetAndPayloadContainerType"; ss_fmt := FV 1; ss_iei := 0; ss_min := 1; ss_max := 1; ss_set := [] |};
          {| ss_name := "PayloadContainer"; ss_fmt := FLVE; ss_iei := 0; ss_min := 1; ss_max := 65535; ss_set := [] |};
          {| ss_name := "PduSessionID2Value"; ss_fmt := FTV 1; ss_iei := 18; ss_min := 1; ss_max := 1; ss_set := [] |};
          {| ss_name := "AdditionalInformation"; ss_fmt := FTLV; ss_iei := 36; ss_min := 1; ss_max := 255; ss_set := [] |};
          {| ss_name := "Cause5GMM"; ss_fmt := FTV 1; ss_iei := 88; ss_min := 1; ss_max := 1; ss_set := [] |};
          {| ss_name := "BackoffTimerValue"; ss_fmt := FTLV; ss_iei := 55; ss_min := 1; ss_max := 1; ss_set := [] |}]);
        ("DeregistrationAcceptUEOriginatingDeregistration",
         [{| ss_name := "ExtendedProtocolDiscriminator"; ss_fmt := FV 1; ss_iei := 0; ss_min := 1; ss_max := 1; ss_set := [] |};
          {| ss_name := "SpareHalfOctetAndSecurityHeaderType"; ss_fmt := FV 1; ss_iei := 0; ss_min := 1; ss_max := 1; ss_set := [] |};
          {| ss_name := "DeregistrationAcceptMessageIdentity"; ss_fmt := FV 1; ss_iei := 0; ss_min := 1; ss_max := 1; ss_set := [] |}]);
        ("DeregistrationAcceptUETerminatedDeregistration",
         [{| ss_name := "ExtendedProtocolDiscriminator"; ss_fmt := FV 1; ss_iei := 0; ss_min := 1; ss_max := 1; ss_set := [] |};
          {| ss_name := "SpareHalfOctetAndSecurityHeaderType"; ss_fmt := FV 1; ss_iei := 0; ss_min := 1; ss_max := 1; ss_set := [] |};
          {| ss_name := "DeregistrationAcceptMessageIdentity"; ss_fmt := FV 1; ss_iei := 0; ss_min := 1; ss_max := 1; ss_set := [] |}]);
        ("DeregistrationRequestUEOriginatingDeregistration",
         [{| ss_name := "ExtendedProtocolDiscriminator"; ss_fmt := FV 1; ss_iei := 0; ss_min := 1; ss_max := 1; ss_set := [] |};
          {| ss_name := "SpareHalfOctetAndSecurityHeaderType"; ss_fmt := FV 1; ss_iei := 0; ss_min := 1; ss_max := 1; ss_set := [] |};
          {| ss_name := "DeregistrationRequestMessageIdentity"; ss_fmt := FV 1; ss_iei := 0; ss_min := 1; ss_max := 1; ss_set := [] |};
          {| ss_name := "NgksiAndDeregistrationType"; ss_fmt := FV 1; ss_iei := 0; ss_min := 1; ss_max := 1; ss_set := [] |};
          {| ss_name := "MobileIdentity5GS"; ss_fmt := FLVE; ss_iei := 0; ss_min := 4; ss_max := 65535; ss_set := [] |}]);
        ("DeregistrationRequestUETerminatedDeregistration",
         [{| ss_name := "ExtendedProtocolDiscriminator"; ss_fmt := FV 1; ss_iei := 0; ss_min := 1; ss_max := 1; ss_set := [] |};
          {| ss_name := "SpareHalfOctetAndSecurityHeaderType"; ss_fmt := FV 1; ss_iei := 0; ss_min := 1; ss_max := 1; ss_set := [] |};
          {| ss_name := "DeregistrationRequestMessageIdentity"; ss_fmt := FV 1; ss_iei := 0; ss_min := 1; ss_max := 1; ss_set := [] |};
          {| ss_name := "SpareHalfOctetAndDeregistrationType"; ss_fmt := FV 1; ss_iei := 0; ss_min := 1; ss_max := 1; ss_set := [] |};
          {| ss_name := "Cause5GMM"; ss_fmt := FTV 1; ss_iei := 88; ss_min := 1; ss_max := 1; ss_set := [] |};
          {| ss_name := "T3346Value"; ss_fmt := FTLV; ss_iei := 95; ss_min := 1; ss_max := 1; ss_set := [] |}]);
        ("IdentityRequest",
         [{| ss_name := "ExtendedProtocolDiscriminator"; ss_fmt := FV 1; ss_iei := 0; ss_min := 1; ss_max := 1; ss_set := [] |};
          {| ss_name := "SpareHalfOctetAndSecurityHeaderType"; ss_fmt := FV 1; ss_iei := 0; ss_min := 1; ss_max := 1; ss_set := [] |};
          {| ss_name := "IdentityRequestMessageIdentity"; ss_fmt := FV 1; ss_iei := 0; ss_min := 1; ss_max := 1; ss_set := [] |};
          {| ss_name := "SpareHalfOctetAndIdentityType"; ss_fmt := FV 1; ss_iei := 0; ss_min := 1; ss_max := 1; ss_set := [] |}]);
        ("IdentityResponse",
         [{| ss_name := "ExtendedProtocolDiscriminator"; ss_fmt := FV 1; ss_iei := 0; ss_min := 1; ss_max := 1; ss_set := [] |};
          {| ss_name := "SpareHalfOctetAndSecurityHeaderType"; ss_fmt := FV 1; ss_iei := 0; ss_min := 1; ss_max := 1; ss_set := [] |};
          {| ss_name := "IdentityResponseMessageIdentity"; ss_fmt := FV 1; ss_iei := 0; ss_min := 1; ss_max := 1; ss_set := [] |};
          {| ss_name := "MobileIdentity"; ss_fmt := FLVE; ss_iei := 0; ss_min := 1; ss_max := 65535; ss_set := [] |}]);
        ("Notification",
         [{| ss_name := "ExtendedProtocolDiscriminator"; ss_fmt := FV 1; ss_iei := 0; ss_min := 1; ss_max := 1; ss_set := [] |};
          {| ss_name := "SpareHalfOctetAndSecurityHeaderType"; ss_fmt := FV 1; ss_iei := 0; ss_min := 1; ss_max := 1; ss_set := [] |};
          {| ss_name := "NotificationMessageIdentity"; ss_fmt := FV 1; ss_iei := 0; ss_min := 1; ss_max := 1; ss_set := [] |};
          {| ss_name := "SpareHalfOctetAndAccessType"; ss_fmt := FV 1; ss_iei := 0; ss_min := 1; ss_max := 1; ss_set := [] |}]);
        ("NotificationResponse",
         [{| ss_name := "ExtendedProtocolDiscriminator"; ss_fmt := FV 1; ss_iei := 0; ss_min := 1; ss_max := 1; ss_set := [] |};
          {| ss_name := "SpareHalfOctetAndSecurityHeaderType"; ss_fmt := FV 1; ss_iei := 0; ss_min := 1; ss_max := 1; ss_set := [] |};
          {| ss_name := "NotificationResponseMessageIdentity"; ss_fmt := FV 1; ss_iei := 0; ss_min := 1; ss_max := 1; ss_set := [] |};
          {| ss_name := "PDUSessionStatus"; ss_fmt := FTLV; ss_iei := 80; ss_min := 2; ss_max := 32; ss_set := [] |}]);
        ("PDUSessionAuthenticationCommand",
         [{| ss_name := "ExtendedProtocolDiscriminator"; ss_fmt := FV 1; ss_iei := 0; ss_min := 1; ss_max := 1; ss_set := [] |};
          {| ss_name := "PDUSessionID"; ss_fmt := FV 1; ss_iei := 0; ss_min := 1; ss_max := 1; ss_set := [] |};
          {| ss_name := "PTI"; ss_fmt := FV 1; ss_iei := 0; ss_min := 1; ss_max := 1; ss_set := [] |};
          {| ss_name := "PDUSESSIONAUTHENTICATIONCOMMANDMessageIdentity"; ss_fmt := FV 1; ss_iei := 0; ss_min := 1; ss_max := 1; ss_set := [] |};
          {| ss_name := "EAPMessage"; ss_fmt := FLVE; ss_iei := 0; ss_min := 4; ss_max := 1500; ss_set := [] |};
          {| ss_name := "ExtendedProtocolConfigurationOptions"; ss_fmt := FTLVE; ss_iei := 123; ss_min := 1; ss_max := 65535; ss_set := [] |}]);
        ("PDUSessionAuthenticationComplete",
         [{| ss_name := "ExtendedProtocolDiscriminator"; ss_fmt := FV 1; ss_iei := 0; ss_min := 1; ss_max := 1; ss_set := [] |};
          {| ss_name := "PDUSessionID"; ss_fmt := FV 1; ss_iei := 0; ss_min := 1; ss_max := 1; ss_set := [] |};
          {| ss_name := "PTI"; ss_fmt := FV 1; ss_iei := 0; ss_min := 1; ss_max := 1; ss_set := [] |};
          {| ss_name := "PDUSESSIONAUTHENTICATIONCOMPLETEMessageIdentity"; ss_fmt := FV 1; ss_iei := 0; ss_min := 1; ss_max := 1; ss_set := [] |};
          {| ss_name := "EAPMessage"; ss_fmt := FLVE; ss_iei := 0; ss_min := 4; ss_max := 1500; ss_set := [] |};
          {| ss_name := "ExtendedProtocolConfigurationOptions"; ss_fmt := FTLVE; ss_iei := 123; ss_min := 1; ss_max := 65535; ss_set := [] |}]);
        ("PDUSessionAuthenticationResult",
         [{| ss_name := "ExtendedProtocolDiscriminator"; ss_fmt := FV 1; ss_iei := 0; ss_min := 1; ss_max := 1; ss_set := [] |};
          {| ss_name := "PDUSessionID"; ss_fmt := FV 1; ss_iei := 0; ss_min := 1; ss_max := 1; ss_set := [] |};
          {| ss_name := "PTI"; ss_fmt := FV 1; ss_iei := 0; ss_min := 1; ss_max := 1; ss_set := [] |};
          {| ss_name := "PDUSESSIONAUTHENTICATIONRESULTMessageIdentity"; ss_fmt := FV 1; ss_iei := 0; ss_min := 1; ss_max := 1; ss_set := [] |};
          {| ss_name := "EAPMessage"; ss_fmt := FTLVE; ss_iei := 120; ss_min := 4; ss_max := 1500; ss_set := [] |};
          {| ss_name := "ExtendedProtocolConfigurationOptions"; ss_fmt := FTLVE; ss_iei := 123; ss_min := 1; ss_max := 65535; ss_set := [] |}]);
        ("PDUSessionEstablishmentAccept",
         [{| ss_name := "ExtendedProtocolDiscriminator"; ss_fmt := FV 1; ss_iei := 0; ss_min := 1; ss_max := 1; ss_set := [] |};
          {| ss_name := "PDUSessionID"; ss_fmt := FV 1; ss_iei := 0; ss_min := 1; ss_max := 1; ss_set := [] |};
          {| ss_name := "PTI"; ss_fmt := FV 1; ss_iei := 0; ss_min := 1; ss_max := 1; ss_set := [] |};
          {| ss_name := "PDUSESSIONESTABLISHMENTACCEPTMessageIdentity"; ss_fmt := FV 1; ss_iei := 0; ss_min := 1; ss_max := 1; ss_set := [] |};
          {| ss_name := "SelectedSSCModeAndSelectedPDUSessionType"; ss_fmt := FV 1; ss_iei := 0; ss_min := 1; ss_max := 1; ss_set := [] |};
          {| ss_name := "AuthorizedQosRules"; ss_fmt := FLVE; ss_iei := 0; ss_min := 4; ss_max := 65535; ss_set := [] |};
          {| ss_name := "SessionAMBR"; ss_fmt := FLV; ss_iei := 0; ss_min := 6; ss_max := 6; ss_set := [] |};
          {| ss_name := "Cause5GSM"; ss_fmt := FTV 1; ss_iei := 89; ss_min := 1; ss_max := 1; ss_set := [] |};
          {| ss_name := "PDUAddress"; ss_fmt := FTLV; ss_iei := 41; ss_min := 5; ss_max := 13; ss_set := [5; 9; 13] |};
          {| ss_name := "RQTimerValue"; ss_fmt := FTV 1; ss_iei := 86; ss_min := 1; ss_max := 1; ss_set := [] |};
          {| ss_name := "SNSSAI"; ss_fmt := FTLV; ss_iei := 34; ss_min := 1; ss_max := 8; ss_set := [] |};
          {| ss_name := "AlwaysonPDUSessionIndication"; ss_fmt := FT1; ss_iei := 8; ss_min := 1; ss_max := 1; ss_set := [] |};
          {| ss_name := "MappedEPSBearerContexts"; ss_fmt := FTLVE; ss_iei := 117; ss_min := 4; ss_max := 65535; ss_set := [] |};
          {| ss_name := "EAPMessage"; ss_fmt := FTLVE; ss_iei := 120; ss_min := 4; ss_max := 1500; ss_set := [] |};
          {| ss_name := "AuthorizedQosFlowDescriptions"; ss_fmt := FTLVE; ss_iei := 121; ss_min := 3; ss_max := 65535; ss_set := [] |};
          {| ss_name := "ExtendedProtocolConfigurationOptions"; ss_fmt := FTLVE; ss_iei := 123; ss_min := 1; ss_max := 65535; ss_set := [] |};
          {| ss_name := "DNN"; ss_fmt := FTLV; ss_iei := 37; ss_min := 1; ss_max := 100; ss_set := [] |}]);
        ("PDUSessionEstablishmentReject",
         [{| ss_name := "ExtendedProtocolDiscriminator"; ss_fmt := FV 1; ss_iei := 0; ss_min := 1; ss_max := 1; ss_set := [] |};
          {| ss_name := "PDUSessionID"; ss_fmt := FV 1; ss_iei := 0; ss_min := 1; ss_max := 1; ss_set := [] |};
          {| ss_name := "PTI"; ss_fmt := FV 1; ss_iei := 0; ss_min := 1; ss_max := 1; ss_set := [] |};
          {| ss_name := "PDUSESSIONESTABLISHMENTREJECTMessageIdentity"; ss_fmt := FV 1; ss_iei := 0; ss_min := 1; ss_max := 1; ss_set := [] |};
          {| ss_name := "Cause5GSM"; ss_fmt := FV 1; ss_iei := 0; ss_min := 1; ss_max := 1; ss_set := [] |};
          {| ss_name := "BackoffTimerValue"; ss_fmt := FTLV; ss_iei := 55; ss_min := 1; ss_max := 1; ss_set := [] |};
          {| ss_name := "AllowedSSCMode"; ss_fmt := FT1; ss_iei := 15; ss_min := 1; ss_max := 1; ss_set := [] |};
          {| ss_name := "EAPMessage"; ss_fmt := FTLVE; ss_iei := 120; ss_min := 4; ss_max := 1500; ss_set := [] |};
          {| ss_name := "CongestionReattemptIndicator5GSM"; ss_fmt := FTLV; ss_iei := 97; ss_min := 1; ss_max := 1; ss_set := [] |};
          {| ss_name := "ExtendedProtocolConfigurationOptions"; ss_fmt := FTLVE; ss_iei := 123; ss_min := 1; ss_max := 65535; ss_set := [] |}]);
        ("PDUSessionEstablishmentRequest",
         [{| ss_name := "ExtendedProtocolDiscriminator"; ss_fmt := FV 1; ss_iei := 0; ss_min := 1; ss_max := 1; ss_set := [] |};
          {| ss_name := "PDUSessionID"; ss_fmt := FV 1; ss_iei := 0; ss_min := 1; ss_max := 1; ss_set := [] |};
          {| ss_name := "PTI"; ss_fmt := FV 1; ss_iei := 0; ss_min := 1; ss_max := 1; ss_set := [] |};
          {| ss_name := "PDUSESSIONESTABLISHMENTREQUESTMessageIdentity"; ss_fmt := FV 1; ss_iei := 0; ss_min := 1; ss_max := 1; ss_set := [] |};
          {| ss_name := "IntegrityProtectionMaximumDataRate"; ss_fmt := FV 2; ss_iei := 0; ss_min := 2; ss_max := 2; ss_set := [] |};
          {| ss_name := "PDUSessionType"; ss_fmt := FT1; ss_iei := 9; ss_min := 1; ss_max := 1; ss_set := [] |};
          {| ss_name := "SSCMode"; ss_fmt := FT1; ss_iei := 10; ss_min := 1; ss_max := 1; ss_set := [] |};
          {| ss_name := "Capability5GSM"; ss_fmt := FTLV; ss_iei := 40; ss_min := 1; ss_max := 13; ss_set := [] |};
          {| ss_name := "MaximumNumberOfSupportedPacketFilters"; ss_fmt := FTV 2; ss_iei := 85; ss_min := 2; ss_max := 2; ss_set := [] |};
          {| ss_name := "AlwaysonPDUSessionRequested"; ss_fmt := FT1; ss_iei := 11; ss_min := 1; ss_max := 1; ss_set := [] |};
          {| ss_name := "SMPDUDNRequestContainer"; ss_fmt := FTLV; ss_iei := 57; ss_min := 1; ss_max := 253; ss_set := [] |};
          {| ss_name := "ExtendedProtocolConfigurationOptions"; ss_fmt := FTLVE; ss_iei := 123; ss_min := 1; ss_max := 65535; ss_set := [] |}]);
        ("PDUSessionModificationCommand",
         [{| ss_name := "ExtendedProtocolDiscriminator"; ss_fmt := FV 1; ss_iei := 0; ss_min := 1; ss_max := 1; ss_set := [] |};
          {| ss_name := "PDUSessionID"; ss_fmt := FV 1; ss_iei := 0; ss_min := 1; ss_max := 1; ss_set := [] |};
          {| ss_name := "PTI"; ss_fmt := FV 1; ss_iei := 0; ss_min := 1; ss_max := 1; ss_set := [] |};
          {| ss_name := "PDUSESSIONMODIFICATIONCOMMANDMessageIdentity"; ss_fmt := FV 1; ss_iei := 0; ss_min := 1; ss_max := 1; ss_set := [] |};
          {| ss_name := "Cause5GSM"; ss_fmt := FTV 1; ss_iei := 89; ss_min := 1; ss_max := 1; ss_set := [] |};
          {| ss_name := "SessionAMBR"; ss_fmt := FTLV; ss_iei := 42; ss_min := 6; ss_max := 6; ss_set := [] |};
          {| ss_name := "RQTimerValue"; ss_fmt := FTV 1; ss_iei := 86; ss_min := 1; ss_max := 1; ss_set := [] |};
          {| ss_name := "AlwaysonPDUSessionIndication"; ss_fmt := FT1; ss_iei := 8; ss_min := 1; ss_max := 1; ss_set := [] |};
          {| ss_name := "AuthorizedQosRules"; ss_fmt := FTLVE; ss_iei := 122; ss_min := 4; ss_max := 65535; ss_set := [] |};
          {| ss_name := "MappedEPSBearerContexts"; ss_fmt := FTLVE; ss_iei := 117; ss_min := 4; ss_max := 65535; ss_set := [] |};
          {| ss_name := "AuthorizedQosFlowDescriptions"; ss_fmt := FTLVE; ss_iei := 121; ss_min := 3; ss_max := 65535; ss_set := [] |};
          {| ss_name := "ExtendedProtocolConfigurationOptions"; ss_fmt := FTLVE; ss_iei := 123; ss_min := 1; ss_max := 65535; ss_set := [] |}]);
        ("PDUSessionModificationCommandReject",
         [{| ss_name := "ExtendedProtocolDiscriminator"; ss_fmt := FV 1; ss_iei := 0; ss_min := 1; ss_max := 1; ss_set := [] |};
          {| ss_name := "PDUSessionID"; ss_fmt := FV 1; ss_iei := 0; ss_min := 1; ss_max := 1; ss_set := [] |};
          {| ss_name := "PTI"; ss_fmt := FV 1; ss_iei := 0; ss_min := 1; ss_max := 1; ss_set := [] |};
          {| ss_name := "PDUSESSIONMODIFICATIONCOMMANDREJECTMessageIdentity"; ss_fmt := FV 1; ss_iei := 0; ss_min := 1; ss_max := 1; ss_set := [] |};
          {| ss_name := "Cause5GSM"; ss_fmt := FV 1; ss_iei := 0; ss_min := 1; ss_max := 1; ss_set := [] |};
          {| ss_name := "ExtendedProtocolConfigurationOptions"; ss_fmt := FTLVE; ss_iei := 123; ss_min := 1; ss_max := 65535; ss_set := [] |}]);
        ("PDUSessionModificationComplete",
         [{| ss_name := "ExtendedProtocolDiscriminator"; ss_fmt := FV 1; ss_iei := 0; ss_min := 1; ss_max := 1; ss_set := [] |};
          {| ss_name := "PDUSessionID"; ss_fmt := FV 1; ss_iei := 0; ss_min := 1; ss_max := 1; ss_set := [] |};
          {| ss_name := "PTI"; ss_fmt := FV 1; ss_iei := 0; ss_min := 1; ss_max := 1; ss_set := [] |};
          {| ss_name := "PDUSESSIONMODIFICATIONCOMPLETEMessageIdentity"; ss_fmt := FV 1; ss_iei := 0; ss_min := 1; ss_max := 1; ss_set := [] |};
          {| ss_name := "ExtendedProtocolConfigurationOptions"; ss_fmt := FTLVE; ss_iei := 123; ss_min := 1; ss_max := 65535; ss_set := [] |}]);
        ("PDUSessionModificationReject",
         [{| ss_name := "ExtendedProtocolDiscriminator"; ss_fmt := FV 1; ss_iei := 0; ss_min := 1; ss_max := 1; ss_set := [] |};
          {| ss_name := "PDUSessionID"; ss_fmt := FV 1; ss_iei := 0; ss_min := 1; ss_max := 1; ss_set := [] |};
          {| ss_name := "PTI"; ss_fmt := FV 1; ss_iei := 0; ss_min := 1; ss_max := 1; ss_set := [] |};
          {| ss_name := "PDUSESSIONMODIFICATIONREJECTMessageIdentity"; ss_fmt := FV 1; ss_iei := 0; ss_min := 1; ss_max := 1; ss_set := [] |};
          {| ss_name := "Cause5GSM"; ss_fmt := FV 1; ss_iei := 0; ss_min := 1; ss_max := 1; ss_set := [] |};
          {| ss_name := "BackoffTimerValue"; ss_fmt := FTLV; ss_iei := 55; ss_min := 1; ss_max := 1; ss_set := [] |};
          {| ss_name := "CongestionReattemptIndicator5GSM"; ss_fmt := FTLV; ss_iei := 97; ss_min := 1; ss_max := 1; ss_set := [] |};
          {| ss_name := "ExtendedProtocolConfigurationOptions"; ss_fmt := FTLVE; ss_iei := 123; ss_min := 1; ss_max := 65535; ss_set := [] |}]);
        ("PDUSessionModificationRequest",
         [{| ss_name := "ExtendedProtocolDiscriminator"; ss_fmt := FV 1; ss_iei := 0; ss_min := 1; ss_max := 1; ss_set := [] |};
          {| ss_name := "PDUSessionID"; ss_fmt := FV 1; ss_iei := 0; ss_min := 1; ss_max := 1; ss_set := [] |};
          {| ss_name := "PTI"; ss_fmt := FV 1; ss_iei := 0; ss_min := 1; ss_max := 1; ss_set := [] |};
          {| ss_name := "PDUSESSIONMODIFICATIONREQUESTMessageIdentity"; ss_fmt := FV 1; ss_iei := 0; ss_min := 1; ss_max := 1; ss_set := [] |};
          {| ss_name := "Capability5GSM"; ss_fmt := FTLV; ss_iei := 40; ss_min := 1; ss_max := 13; ss_set := [] |};
          {| ss_name := "Cause5GSM"; ss_fmt := FTV 1; ss_iei := 89; ss_min := 1; ss_max := 1; ss_set := [] |};
          {| ss_name := "MaximumNumberOfSupportedPacketFilters"; ss_fmt := FTV 2; ss_iei := 85; ss_min := 2; ss_max := 2; ss_set := [] |};
          {| ss_name := "AlwaysonPDUSessionRequested"; ss_fmt := FT1; ss_iei := 11; ss_min := 1; ss_max := 1; ss_set := [] |};
          {| ss_name := "IntegrityProtectionMaximumDataRate"; ss_fmt := FTV 2; ss_iei := 19; ss_min := 2; ss_max := 2; ss_set := [] |};
          {| ss_name := "RequestedQosRules"; ss_fmt := FTLVE; ss_iei := 122; ss_min := 4; ss_max := 65535; ss_set := [] |};
          {| ss_name := "RequestedQosFlowDescriptions"; ss_fmt := FTLVE; ss_iei := 121; ss_min := 3; ss_max := 65535; ss_set := [] |};
          {| ss_name := "MappedEPSBearerContexts"; ss_fmt := FTLVE; ss_iei := 117; ss_min := 4; ss_max := 65535; ss_set := [] |};
          {| ss_name := "ExtendedProtocolConfigurationOptions"; ss_fmt := FTLVE; ss_iei := 123; ss_min := 1; ss_max := 65535; ss_set := [] |}]);
        ("PDUSessionReleaseCommand",
         [{| ss_name := "ExtendedProtocolDiscriminator"; ss_fmt := FV 1; ss_iei := 0; ss_min := 1; ss_max := 1; ss_set := [] |};
          {| ss_name := "PDUSessionID"; ss_fmt := FV 1; ss_iei := 0; ss_min := 1; ss_max := 1; ss_set := [] |};
          {| ss_name := "PTI"; ss_fmt := FV 1; ss_iei := 0; ss_min := 1; ss_max := 1; ss_set := [] |};
          {| ss_name := "PDUSESSIONRELEASECOMMANDMessageIdentity"; ss_fmt := FV 1; ss_iei := 0; ss_min := 1; ss_max := 1; ss_set := [] |};
          {| ss_name := "Cause5GSM"; ss_fmt := FV 1; ss_iei := 0; ss_min := 1; ss_max := 1; ss_set := [] |};
          {| ss_name := "BackoffTimerValue"; ss_fmt := FTLV; ss_iei := 55; ss_min := 1; ss_max := 1; ss_set := [] |};
          {| ss_name := "EAPMessage"; ss_fmt := FTLVE; ss_iei := 120; ss_min := 4; ss_max := 1500; ss_set := [] |};
          {| ss_name := "CongestionReattemptIndicator5GSM"; ss_fmt := FTLV; ss_iei := 97; ss_min := 1; ss_max := 1; ss_set := [] |};
          {| ss_name := "ExtendedProtocolConfigurationOptions"; ss_fmt := FTLVE; ss_iei := 123; ss_min := 1; ss_max := 65535; ss_set := [] |}]);
        ("PDUSessionReleaseComplete",
         [{| ss_name := "ExtendedProtocolDiscriminator"; ss_fmt := FV 1; ss_iei := 0; ss_min := 1; ss_max := 1; ss_set := [] |};
          {| ss_name := "PDUSessionID"; ss_fmt := FV 1; ss_iei := 0; ss_min := 1; ss_max := 1; ss_set := [] |};
          {| ss_name := "PTI"; ss_fmt := FV 1; ss_iei := 0; ss_min := 1; ss_max := 1; ss_set := [] |};
          {| ss_name := "PDUSESSIONRELEASECOMPLETEMessageIdentity"; ss_fmt := FV 1; ss_iei := 0; ss_min := 1; ss_max := 1; ss_set := [] |};
          {| ss_name := "Cause5GSM"; ss_fmt := FTV 1; ss_iei := 89; ss_min := 1; ss_max := 1; ss_set := [] |};
          {| ss_name := "ExtendedProtocolConfigurationOptions"; ss_fmt := FTLVE; ss_iei := 123; ss_min := 1; ss_max := 65535; ss_set := [] |}]);
        ("PDUSessionReleaseReject",
         [{| ss_name := "ExtendedProtocolDiscriminator"; ss_fmt := FV 1; ss_iei := 0; ss_min := 1; ss_max := 1; ss_set := [] |};
          {| ss_name := "PDUSessionID"; ss_fmt := FV 1; ss_iei := 0; ss_min := 1; ss_max := 1; ss_set := [] |};
          {| ss_name := "PTI"; ss_fmt := FV 1; ss_iei := 0; ss_min := 1; ss_max := 1; ss_set := [] |};
          {| ss_name := "PDUSESSIONRELEASEREJECTMessageIdentity"; ss_fmt := FV 1; ss_iei := 0; ss_min := 1; ss_max := 1; ss_set := [] |};
          {| ss_name := "Cause5GSM"; ss_fmt := FV 1; ss_iei := 0; ss_min := 1; ss_max := 1; ss_set := [] |};
          {| ss_name := "ExtendedProtocolConfigurationOptions"; ss_fmt := FTLVE; ss_iei := 123; ss_min := 1; ss_max := 65535; ss_set := [] |}]);
        ("PDUSessionReleaseRequest",
         [{| ss_name := "ExtendedProtocolDiscriminator"; ss_fmt := FV 1; ss_iei := 0; ss_min := 1; ss_max := 1; ss_set := [] |};
          {| ss_name := "PDUSessionID"; ss_fmt := FV 1; ss_iei := 0; ss_min := 1; ss_max := 1; ss_set := [] |};
          {| ss_name := "PTI"; ss_fmt := FV 1; ss_iei := 0; ss_min := 1; ss_max := 1; ss_set := [] |};
          {| ss_name := "PDUSESSIONRELEASEREQUESTMessageIdentity"; ss_fmt := FV 1; ss_iei := 0; ss_min := 1; ss_max := 1; ss_set := [] |};
          {| ss_name := "Cause5GSM"; ss_fmt := FTV 1; ss_iei := 89; ss_min := 1; ss_max := 1; ss_set := [] |};
          {| ss_name := "ExtendedProtocolConfigurationOptions"; ss_fmt := FTLVE; ss_iei := 123; ss_min := 1; ss_max := 65535; ss_set := [] |}]);
        ("RegistrationAccept",
         [{| ss_name := "ExtendedProtocolDiscriminator"; ss_fmt := FV 1; ss_iei := 0; ss_min := 1; ss_max := 1; ss_set := [] |};
          {| ss_name := "SpareHalfOctetAndSecurityHeaderType"; ss_fmt := FV 1; ss_iei := 0; ss_min := 1; ss_max := 1; ss_set := [] |};
          {| ss_name := "RegistrationAcceptMessageIdentity"; ss_fmt := FV 1; ss_iei := 0; ss_min := 1; ss_max := 1; ss_set := [] |};
          {| ss_name := "RegistrationResult5GS"; ss_fmt := FLV; ss_iei := 0; ss_min := 1; ss_max := 1; ss_set := [] |};
          {| ss_name := "GUTI5G"; ss_fmt := FTLVE; ss_iei := 119; ss_min := 11; ss_max := 11; ss_set := [] |};
          {| ss_name := "EquivalentPlmns"; ss_fmt := FTLV; ss_iei := 74; ss_min := 3; ss_max := 45; ss_set := [] |};
          {| ss_name := "TAIList"; ss_fmt := FTLV; ss_iei := 84; ss_min := 7; ss_max := 112; ss_set := [] |};
          {| ss_name := "AllowedNSSAI"; ss_fmt := FTLV; ss_iei := 21; ss_min := 2; ss_max := 72; ss_set := [] |};
          {| ss_name := "RejectedNSSAI"; ss_fmt := FTLV; ss_iei := 17; ss_min := 2; ss_max := 40; ss_set := [] |};
          {| ss_name := "ConfiguredNSSAI"; ss_fmt := FTLV; ss_iei := 49; ss_min := 2; ss_max := 144; ss_set := [] |};
          {| ss_name := "NetworkFeatureSupport5GS"; ss_fmt := FTLV; ss_iei := 33; ss_min := 1; ss_max := 3; ss_set := [] |};
          {| ss_name := "PDUSessionStatus"; ss_fmt := FTLV; ss_iei := 80; ss_min := 2; ss_max := 32; ss_set := [] |};
          {| ss_name := "PDUSessionReactivationResult"; ss_fmt := FTLV; ss_iei := 38; ss_min := 2; ss_max := 32; ss_set := [] |};
          {| ss_name := "PDUSessionReactivationResultErrorCause"; ss_fmt := FTLVE; ss_iei := 114; ss_min := 2; ss_max := 512; ss_set := [] |};
          {| ss_name := "LADNInformation"; ss_fmt := FTLVE; ss_iei := 121; ss_min := 9; ss_max := 1712; ss_set := [] |};
          {| ss_name := "MICOIndication"; ss_fmt := FT1; ss_iei := 11; ss_min := 1; ss_max := 1; ss_set := [] |};
          {| ss_name := "NetworkSlicingIndication"; ss_fmt := FT1; ss_iei := 9; ss_min := 1; ss_max := 1; ss_set := [] |};
          {| ss_name := "ServiceAreaList"; ss_fmt := FTLV; ss_iei := 39; ss_min := 4; ss_max := 112; ss_set := [] |};
          {| ss_name := "T3512Value"; ss_fmt := FTLV; ss_iei := 94; ss_min := 1; ss_max := 1; ss_set := [] |};
          {| ss_name := "Non3GppDeregistrationTimerValue"; ss_fmt := FTLV; ss_iei := 93; ss_min := 1; ss_max := 1; ss_set := [] |};
          {| ss_name := "T3502Value"; ss_fmt := FTLV; ss_iei := 22; ss_min := 1; ss_max := 1; ss_set := [] |};
          {| ss_name := "EmergencyNumberList"; ss_fmt := FTLV; ss_iei := 52; ss_min := 3; ss_max := 48; ss_set := [] |};
          {| ss_name := "ExtendedEmergencyNumberList"; ss_fmt := FTLVE; ss_iei := 122; ss_min := 4; ss_max := 65535; ss_set := [] |};
          {| ss_name := "SORTransparentContainer"; ss_fmt := FTLVE; ss_iei := 115; ss_min := 17; ss_max := 2045; ss_set := [] |};
          {| ss_name := "EAPMessage"; ss_fmt := FTLVE; ss_iei := 120; ss_min := 4; ss_max := 1500; ss_set := [] |};
          {| ss_name := "NSSAIInclusionMode"; ss_fmt := FT1; ss_iei := 10; ss_min := 1; ss_max := 1; ss_set := [] |};
          {| ss_name := "OperatordefinedAccessCategoryDefinitions"; ss_fmt := FTLVE; ss_iei := 118; ss_min := 0; ss_max := 65535; ss_set := [] |};
          {| ss_name := "NegotiatedDRXParameters"; ss_fmt := FTLV; ss_iei := 81; ss_min := 1; ss_max := 1; ss_set := [] |};
          {| ss_name := "Non3GppNwPolicies"; ss_fmt := FT1; ss_iei := 13; ss_min := 1; ss_max := 1; ss_set := [] |};
          {| ss_name := "EPSBearerContextStatus"; ss_fmt := FTLV; ss_iei := 96; ss_min := 2; ss_max := 2; ss_set := [] |}]);
        ("RegistrationComplete",
         [{| ss_name := "ExtendedProtocolDiscriminator"; ss_fmt := FV 1; ss_iei := 0; ss_min := 1; ss_max := 1; ss_set := [] |};
          {| ss_name := "SpareHalfOctetAndSecurityHeaderType"; ss_fmt := FV 1; ss_iei := 0; ss_min := 1; ss_max := 1; ss_set := [] |};
          {| ss_name := "RegistrationCompleteMessageIdentity"; ss_fmt := FV 1; ss_iei := 0; ss_min := 1; ss_max := 1; ss_set := [] |};
          {| ss_name := "SORTransparentContainer"; ss_fmt := FTLVE; ss_iei := 115; ss_min := 17; ss_max := 2045; ss_set := [] |}]);
        ("RegistrationReject",
         [{| ss_name := "ExtendedProtocolDiscriminator"; ss_fmt := FV 1; ss_iei := 0; ss_min := 1; ss_max := 1; ss_set := [] |};
          {| ss_name := "SpareHalfOctetAndSecurityHeaderType"; ss_fmt := FV 1; ss_iei := 0; ss_min := 1; ss_max := 1; ss_set := [] |};
          {| ss_name := "RegistrationRejectMessageIdentity"; ss_fmt := FV 1; ss_iei := 0; ss_min := 1; ss_max := 1; ss_set := [] |};
          {| ss_name := "Cause5GMM"; ss_fmt := FV 1; ss_iei := 0; ss_min := 1; ss_max := 1; ss_set := [] |};
          {| ss_name := "T3346Value"; ss_fmt := FTLV; ss_iei := 95; ss_min := 1; ss_max := 1; ss_set := [] |};
          {| ss_name := "T3502Value"; ss_fmt := FTLV; ss_iei := 22; ss_min := 1; ss_max := 1; ss_set := [] |};
          {| ss_name := "EAPMessage"; ss_fmt := FTLVE; ss_iei := 120; ss_min := 4; ss_max := 1500; ss_set := [] |}]);
        ("RegistrationRequest",
         [{| ss_name := "ExtendedProtocolDiscriminator"; ss_fmt := FV 1; ss_iei := 0; ss_min := 1; ss_max := 1; ss_set := [] |};
          {| ss_name := "SpareHalfOctetAndSecurityHeaderType"; ss_fmt := FV 1; ss_iei := 0; ss_min := 1; ss_max := 1; ss_set := [] |};
          {| ss_name := "RegistrationRequestMessageIdentity"; ss_fmt := FV 1; ss_iei := 0; ss_min := 1; ss_max := 1; ss_set := [] |};
          {| ss_name := "NgksiAndRegistrationType5GS"; ss_fmt := FV 1; ss_iei := 0; ss_min := 1; ss_max := 1; ss_set := [] |};
          {| ss_name := "MobileIdentity5GS"; ss_fmt := FLVE; ss_iei := 0; ss_min := 4; ss_max := 65535; ss_set := [] |};
          {| ss_name := "NoncurrentNativeNASKeySetIdentifier"; ss_fmt := FT1; ss_iei := 12; ss_min := 1; ss_max := 1; ss_set := [] |};
          {| ss_name := "Capability5GMM"; ss_fmt := FTLV; ss_iei := 16; ss_min := 1; ss_max := 13; ss_set := [] |};
          {| ss_name := "UESecurityCapability"; ss_fmt := FTLV; ss_iei := 46; ss_min := 2; ss_max := 8; ss_set := [] |};
          {| ss_name := "RequestedNSSAI"; ss_fmt := FTLV; ss_iei := 47; ss_min := 2; ss_max := 72; ss_set := [] |};
          {| ss_name := "LastVisitedRegisteredTAI"; ss_fmt := FTV 6; ss_iei := 82; ss_min := 6; ss_max := 6; ss_set := [] |};
          {| ss_name := "S1UENetworkCapability"; ss_fmt := FTLV; ss_iei := 23; ss_min := 2; ss_max := 13; ss_set := [] |};
          {| ss_name := "UplinkDataStatus"; ss_fmt := FTLV; ss_iei := 64; ss_min := 2; ss_max := 32; ss_set := [] |};
          {| ss_name := "PDUSessionStatus"; ss_fmt := FTLV; ss_iei := 80; ss_min := 2; ss_max := 32; ss_set := [] |};
          {| ss_name := "MICOIndication"; ss_fmt := FT1; ss_iei := 11; ss_min := 1; ss_max := 1; ss_set := [] |};
          {| ss_name := "UEStatus"; ss_fmt := FTLV; ss_iei := 43; ss_min := 1; ss_max := 1; ss_set := [] |};
          {| ss_name := "AdditionalGUTI"; ss_fmt := FTLVE; ss_iei := 119; ss_min := 11; ss_max := 11; ss_set := [] |};
          {| ss_name := "AllowedPDUSessionStatus"; ss_fmt := FTLV; ss_iei := 37; ss_min := 2; ss_max := 32; ss_set := [] |};
          {| ss_name := "UesUsageSetting"; ss_fmt := FTLV; ss_iei := 24; ss_min := 1; ss_max := 1; ss_set := [] |};
          {| ss_name := "RequestedDRXParameters"; ss_fmt := FTLV; ss_iei := 81; ss_min := 1; ss_max := 1; ss_set := [] |};
          {| ss_name := "EPSNASMessageContainer"; ss_fmt := FTLVE; ss_iei := 112; ss_min := 1; ss_max := 65535; ss_set := [] |};
          {| ss_name := "LADNIndication"; ss_fmt := FTLVE; ss_iei := 116; ss_min := 0; ss_max := 808; ss_set := [] |};
          {| ss_name := "PayloadContainer"; ss_fmt := FTLVE; ss_iei := 123; ss_min := 1; ss_max := 65535; ss_set := [] |};
          {| ss_name := "NetworkSlicingIndication"; ss_fmt := FT1; ss_iei := 9; ss_min := 1; ss_max := 1; ss_set := [] |};
          {| ss_name := "UpdateType5GS"; ss_fmt := FTLV; ss_iei := 83; ss_min := 1; ss_max := 1; ss_set := [] |};
          {| ss_name := "NASMessageContainer"; ss_fmt := FTLVE; ss_iei := 113; ss_min := 1; ss_max := 65535; ss_set := [] |};
          {| ss_name := "EPSBearerContextStatus"; ss_fmt := FTLV; ss_iei := 96; ss_min := 2; ss_max := 2; ss_set := [] |}]);
        ("SecurityModeCommand",
         [{| ss_name := "ExtendedProtocolDiscriminator"; ss_fmt := FV 1; ss_iei := 0; ss_min := 1; ss_max := 1; ss_set := [] |};
          {| ss_name := "SpareHalfOctetAndSecurityHeaderType"; ss_fmt := FV 1; ss_iei := 0; ss_min := 1; ss_max := 1; ss_set := [] |};
          {| ss_name := "SecurityModeCommandMessageIdentity"; ss_fmt := FV 1; ss_iei := 0; ss_min := 1; ss_max := 1; ss_set := [] |};
          {| ss_name := "SelectedNASSecurityAlgorithms"; ss_fmt := FV 1; ss_iei := 0; ss_min := 1; ss_max := 1; ss_set := [] |};
          {| ss_name := "SpareHalfOctetAndNgksi"; ss_fmt := FV 1; ss_iei := 0; ss_min := 1; ss_max := 1; ss_set := [] |};
          {| ss_name := "ReplayedUESecurityCapabilities"; ss_fmt := FLV; ss_iei := 0; ss_min := 2; ss_max := 8; ss_set := [] |};
          {| ss_name := "IMEISVRequest"; ss_fmt := FT1; ss_iei := 14; ss_min := 1; ss_max := 1; ss_set := [] |};
          {| ss_name := "SelectedEPSNASSecurityAlgorithms"; ss_fmt := FTV 1; ss_iei := 87; ss_min := 1; ss_max := 1; ss_set := [] |};
          {| ss_name := "Additional5GSecurityInformation"; ss_fmt := FTLV; ss_iei := 54; ss_min := 1; ss_max := 1; ss_set := [] |};
          {| ss_name := "EAPMessage"; ss_fmt := FTLVE; ss_iei := 120; ss_min := 4; ss_max := 1500; ss_set := [] |};
          {| ss_name := "ABBA"; ss_fmt := FTLV; ss_iei := 56; ss_min := 2; ss_max := 255; ss_set := [] |};
          {| ss_name := "ReplayedS1UESecurityCapabilities"; ss_fmt := FTLV; ss_iei := 25; ss_min := 2; ss_max := 5; ss_set := [] |}]);
        ("SecurityModeComplete",
         [{| ss_name := "ExtendedProtocolDiscriminator"; ss_fmt := FV 1; ss_iei := 0; ss_min := 1; ss_max := 1; ss_set := [] |};
          {| ss_name := "SpareHalfOctetAndSecurityHeaderType"; ss_fmt := FV 1; ss_iei := 0; ss_min := 1; ss_max := 1; ss_set := [] |};
          {| ss_name := "SecurityModeCompleteMessageIdentity"; ss_fmt := FV 1; ss_iei := 0; ss_min := 1; ss_max := 1; ss_set := [] |};
          {| ss_name := "IMEISV"; ss_fmt := FTLVE; ss_iei := 119; ss_min := 9; ss_max := 9; ss_set := [] |};
          {| ss_name := "NASMessageContainer"; ss_fmt := FTLVE; ss_iei := 113; ss_min := 1; ss_max := 65535; ss_set := [] |}]);
        ("SecurityModeReject",
         [{| ss_name := "ExtendedProtocolDiscriminator"; ss_fmt := FV 1; ss_iei := 0; ss_min := 1; ss_max := 1; ss_set := [] |};
          {| ss_name := "SpareHalfOctetAndSecurityHeaderType"; ss_fmt := FV 1; ss_iei := 0; ss_min := 1; ss_max := 1; ss_set := [] |};
          {| ss_name := "SecurityModeRejectMessageIdentity"; ss_fmt := FV 1; ss_iei := 0; ss_min := 1; ss_max := 1; ss_set := [] |};
          {| ss_name := "Cause5GMM"; ss_fmt := FV 1; ss_iei := 0; ss_min := 1; ss_max := 1; ss_set := [] |}]);
        ("SecurityProtected5GSNASMessage",
         [{| ss_name := "ExtendedProtocolDiscriminator"; ss_fmt := FV 1; ss_iei := 0; ss_min := 1; ss_max := 1; ss_set := [] |};
          {| ss_name := "SpareHalfOctetAndSecurityHeaderType"; ss_fmt := FV 1; ss_iei := 0; ss_min := 1; ss_max := 1; ss_set := [] |};
          {| ss_name := "MessageAuthenticationCode"; ss_fmt := FV 4; ss_iei := 0; ss_min := 4; ss_max := 4; ss_set := [] |};
          {| ss_name := "SequenceNumber"; ss_fmt := FV 1; ss_iei := 0; ss_min := 1; ss_max := 1; ss_set := [] |};
          {| ss_name := "Plain5GSNASMessage"; ss_fmt := FV 0; ss_iei := 0; ss_min := 0; ss_max := 0; ss_set := [] |}]);
        ("ServiceAccept",
         [{| ss_name := "ExtendedProtocolDiscriminator"; ss_fmt := FV 1; ss_iei := 0; ss_min := 1; ss_max := 1; ss_set := [] |};
          {| ss_name := "SpareHalfOctetAndSecurityHeaderType"; ss_fmt := FV 1; ss_iei := 0; ss_min := 1; ss_max := 1; ss_set := [] |};
          {| ss_name := "ServiceAcceptMessageIdentity"; ss_fmt := FV 1; ss_iei := 0; ss_min := 1; ss_max := 1; ss_set := [] |};
          {| ss_name := "PDUSessionStatus"; ss_fmt := FTLV; ss_iei := 80; ss_min := 2; ss_max := 32; ss_set := [] |};
          {| ss_name := "PDUSessionReactivationResult"; ss_fmt := FTLV; ss_iei := 38; ss_min := 2; ss_max := 32; ss_set := [] |};
          {| ss_name := "PDUSessionReactivationResultErrorCause"; ss_fmt := FTLVE; ss_iei := 114; ss_min := 2; ss_max := 512; ss_set := [] |};
          {| ss_name := "EAPMessage"; ss_fmt := FTLVE; ss_iei := 120; ss_min := 4; ss_max := 1500; ss_set := [] |}]);
        ("ServiceReject",
         [{| ss_name := "ExtendedProtocolDiscriminator"; ss_fmt := FV 1; ss_iei := 0; ss_min := 1; ss_max := 1; ss_set := [] |};
          {| ss_name := "SpareHalfOctetAndSecurityHeaderType"; ss_fmt := FV 1; ss_iei := 0; ss_min := 1; ss_max := 1; ss_set := [] |};
          {| ss_name := "ServiceRejectMessageIdentity"; ss_fmt := FV 1; ss_iei := 0; ss_min := 1; ss_max := 1; ss_set := [] |};
          {| ss_name := "Cause5GMM"; ss_fmt := FV 1; ss_iei := 0; ss_min := 1; ss_max := 1; ss_set := [] |};
          {| ss_name := "PDUSessionStatus"; ss_fmt := FTLV; ss_iei := 80; ss_min := 2; ss_max := 32; ss_set := [] |};
          {| ss_name := "T3346Value"; ss_fmt := FTLV; ss_iei := 95; ss_min := 1; ss_max := 1; ss_set := [] |};
          {| ss_name := "EAPMessage"; ss_fmt := FTLVE; ss_iei := 120; ss_min := 4; ss_max := 1500; ss_set := [] |}]);
        ("ServiceRequest",
         [{| ss_name := "ExtendedProtocolDiscriminator"; ss_fmt := FV 1; ss_iei := 0; ss_min := 1; ss_max := 1; ss_set := [] |};
          {| ss_name := "SpareHalfOctetAndSecurityHeaderType"; ss_fmt := FV 1; ss_iei := 0; ss_min := 1; ss_max := 1; ss_set := [] |};
          {| ss_name := "ServiceRequestMessageIdentity"; ss_fmt := FV 1; ss_iei := 0; ss_min := 1; ss_max := 1; ss_set := [] |};
          {| ss_name := "ServiceTypeAndNgksi"; ss_fmt := FV 1; ss_iei := 0; ss_min := 1; ss_max := 1; ss_set := [] |};
          {| ss_name := "TMSI5GS"; ss_fmt := FLVE; ss_iei := 0; ss_min := 7; ss_max := 7; ss_set := [] |};
          {| ss_name := "UplinkDataStatus"; ss_fmt := FTLV; ss_iei := 64; ss_min := 2; ss_max := 32; ss_set := [] |};
          {| ss_name := "PDUSessionStatus"; ss_fmt := FTLV; ss_iei := 80; ss_min := 2; ss_max := 32; ss_set := [] |};
          {| ss_name := "AllowedPDUSessionStatus"; ss_fmt := FTLV; ss_iei := 37; ss_min := 2; ss_max := 32; ss_set := [] |};
          {| ss_name := "NASMessageContainer"; ss_fmt := FTLVE; ss_iei := 113; ss_min := 1; ss_max := 65535; ss_set := [] |}]);
        ("Status5GMM",
         [{| ss_name := "ExtendedProtocolDiscriminator"; ss_fmt := FV 1; ss_iei := 0; ss_min := 1; ss_max := 1; ss_set := [] |};
          {| ss_name := "SpareHalfOctetAndSecurityHeaderType"; ss_fmt := FV 1; ss_iei := 0; ss_min := 1; ss_max := 1; ss_set := [] |};
          {| ss_name := "STATUSMessageIdentity5GMM"; ss_fmt := FV 1; ss_iei := 0; ss_min := 1; ss_max := 1; ss_set := [] |};
          {| ss_name := "Cause5GMM"; ss_fmt := FV 1; ss_iei := 0; ss_min := 1; ss_max := 1; ss_set := [] |}]);
        ("Status5GSM",
         [{| ss_name := "ExtendedProtocolDiscriminator"; ss_fmt := FV 1; ss_iei := 0; ss_min := 1; ss_max := 1; ss_set := [] |};
          {| ss_name := "PDUSessionID"; ss_fmt := FV 1; ss_iei := 0; ss_min := 1; ss_max := 1; ss_set := [] |};
          {| ss_name := "PTI"; ss_fmt := FV 1; ss_iei := 0; ss_min := 1; ss_max := 1; ss_set := [] |};
          {| ss_name := "STATUSMessageIdentity5GSM"; ss_fmt := FV 1; ss_iei := 0; ss_min := 1; ss_max := 1; ss_set := [] |};
          {| ss_name := "Cause5GSM"; ss_fmt := FV 1; ss_iei := 0; ss_min := 1; ss_max := 1; ss_set := [] |}]);
        ("ULNASTransport",
         [{| ss_name := "ExtendedProtocolDiscriminator"; ss_fmt := FV 1; ss_iei := 0; ss_min := 1; ss_max := 1; ss_set := [] |};
          {| ss_name := "SpareHalfOctetAndSecurityHeaderType"; ss_fmt := FV 1; ss_iei := 0; ss_min := 1; ss_max := 1; ss_set := [] |};
          {| ss_name := "ULNASTRANSPORTMessageIdentity"; ss_fmt := FV 1; ss_iei := 0; ss_min := 1; ss_max := 1; ss_set := [] |};
          {| ss_name := "SpareHalfOctetAndPayloadContainerType"; ss_fmt := FV 1; ss_iei := 0; ss_min := 1; ss_max := 1; ss_set := [] |};
          {| ss_name := "PayloadContainer"; ss_fmt := FLVE; ss_iei := 0; ss_min := 1; ss_max := 65535; ss_set := [] |};
          {| ss_name := "PduSessionID2Value"; ss_fmt := FTV 1; ss_iei := 18; ss_min := 1; ss_max := 1; ss_set := [] |};
          {| ss_name := "OldPDUSessionID"; ss_fmt := FTV 1; ss_iei := 89; ss_min := 1; ss_max := 1; ss_set := [] |};
          {| ss_name := "RequestType"; ss_fmt := FT1; ss_iei := 8; ss_min := 1; ss_max := 1; ss_set := [] |};
          {| ss_name := "SNSSAI"; ss_fmt := FTLV; ss_iei := 34; ss_min := 1; ss_max := 8; ss_set := [] |};
          {| ss_name := "DNN"; ss_fmt := FTLV; ss_iei := 37; ss_min := 1; ss_max := 100; ss_set := [] |};
          {| ss_name := "AdditionalInformation"; ss_fmt := FTLV; ss_iei := 36; ss_min := 1; ss_max := 255; ss_set := [] |}])].
