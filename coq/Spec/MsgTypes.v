(* Pinned message-type table: TS 24.501 v15 Tables 9.7.1 (5GMM) and 9.7.2 (5GSM).
   Transcribed once; never regenerated from the code. *)
From NV Require Import Lib.Base.
From Coq Require Import String.
Open Scope N_scope.

Definition gmm_types : list (N * string) :=
  [(65, "RegistrationRequest"%string);
   (66, "RegistrationAccept"%string);
   (67, "RegistrationComplete"%string);
   (68, "RegistrationReject"%string);
   (69, "DeregistrationRequestUEOriginatingDeregistration"%string);
   (70, "DeregistrationAcceptUEOriginatingDeregistration"%string);
   (71, "DeregistrationRequestUETerminatedDeregistration"%string);
   (72, "DeregistrationAcceptUETerminatedDeregistration"%string);
   (76, "ServiceRequest"%string);
   (77, "ServiceReject"%string);
   (78, "ServiceAccept"%string);
   (84, "ConfigurationUpdateCommand"%string);
   (85, "ConfigurationUpdateComplete"%string);
   (86, "AuthenticationRequest"%string);
   (87, "AuthenticationResponse"%string);
   (88, "AuthenticationReject"%string);
   (89, "AuthenticationFailure"%string);
   (90, "AuthenticationResult"%string);
   (91, "IdentityRequest"%string);
   (92, "IdentityResponse"%string);
   (93, "SecurityModeCommand"%string);
   (94, "SecurityModeComplete"%string);
   (95, "SecurityModeReject"%string);
   (100, "Status5GMM"%string);
   (101, "Notification"%string);
   (102, "NotificationResponse"%string);
   (103, "ULNASTransport"%string);
   (104, "DLNASTransport"%string)].

Definition gsm_types : list (N * string) :=
  [(193, "PDUSessionEstablishmentRequest"%string);
   (194, "PDUSessionEstablishmentAccept"%string);
   (195, "PDUSessionEstablishmentReject"%string);
   (197, "PDUSessionAuthenticationCommand"%string);
   (198, "PDUSessionAuthenticationComplete"%string);
   (199, "PDUSessionAuthenticationResult"%string);
   (201, "PDUSessionModificationRequest"%string);
   (202, "PDUSessionModificationReject"%string);
   (203, "PDUSessionModificationCommand"%string);
   (204, "PDUSessionModificationComplete"%string);
   (205, "PDUSessionModificationCommandReject"%string);
   (209, "PDUSessionReleaseRequest"%string);
   (210, "PDUSessionReleaseReject"%string);
   (211, "PDUSessionReleaseCommand"%string);
   (212, "PDUSessionReleaseComplete"%string);
   (214, "Status5GSM"%string)].
