(* C11 correspondence: histories observed on the Go implementation, replayed on the model. *)
From NV Require Import Lib.Base Lib.BV C11.Model.
Open Scope N_scope.

Definition retv_eqb (a b : retv) : bool :=
  match a, b with
  | RNone, RNone => true
  | RVal x, RVal y => x =? y
  | RBytes x, RBytes y => eqb_bytes x y
  | _, _ => false
  end.

(* a case: id, initial field value, operations, observed (final value, results) *)
Definition case := (N * N * list cop * (N * list retv))%type.

Definition case_ok (c : case) : bool :=
  let '(_, c0, ops, (cf, rs)) := c in
  match run_ops c0 ops with
  | Ok (cf', rs') => (cf =? cf') && eqb_list retv_eqb rs rs'
  | _ => false
  end.

Definition mismatches (cs : list case) : list N :=
  map (fun c => fst (fst (fst c))) (filter (fun c => negb (case_ok c)) cs).
