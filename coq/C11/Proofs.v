(* C11: closed forms of the translated counter methods and the counter laws. *)
From NV Require Import Lib.Base Lib.Bits Lib.BV C09.Abs C09.AbsSound Gen.GenCounter C11.Equiv C11.Model.
From Coq Require Import String ZifyN ZifyNat ZifyBool.
Open Scope N_scope.
Ltac Zify.zify_post_hook ::= Z.div_mod_to_equations.

Arguments N.land : simpl never.
Arguments N.lor : simpl never.
Arguments N.shiftl : simpl never.
Arguments N.shiftr : simpl never.
Arguments N.modulo : simpl never.
Arguments N.div : simpl never.
Arguments N.pow : simpl never.
Arguments N.add : simpl never.
Arguments N.mul : simpl never.
Arguments N.sub : simpl never.

Definition Inv (c : N) : Prop := c < 2 ^ 24.

Lemma translator_complete : counter_unknown = [] /\ counter_is_single_uint32 = true.
Proof. split; reflexivity. Qed.

(* the methods translated from the current source are equivalent to the pinned ones, expression by
   expression (syntactically equal, or total with the same 64-bit provenance vector) *)
Lemma gen_equiv_pinned : table_equiv no_mask pinned_methods counter_methods pinned_methods = true.
Proof. vm_compute. reflexivity. Qed.

Lemma cstate_ok c : c < 2 ^ 64 -> st_ok (cstate c).
Proof. intro H. unfold st_ok, cstate. cbn. repeat split; try (change (2 ^ 64) with 18446744073709551616; lia). constructor. Qed.

(* hence running a method of the current source is running the pinned one *)
Lemma run_is_run_p m c args n : c < 2 ^ 64 -> arity_of pinned_methods m = Some n -> List.length args = n ->
  run m c args = run_p m c args.
Proof.
  intros Hc Ha Hl. unfold run, run_p, cmethods, pmethods.
  pose proof (lookup_equiv no_mask pinned_methods m counter_methods pinned_methods gen_equiv_pinned) as Hb.
  rewrite arity_assoc in Ha. unfold lk1 at 1, lk2 at 1.
  destruct (assoc_s m counter_methods) as [b1|]; destruct (assoc_s m pinned_methods) as [[n' b2]|]; try contradiction; try discriminate Ha.
  inversion Ha; subst n'. cbn [option_map snd]. rewrite <- Hl in Hb.
  destruct (exec_equiv no_mask eq_refl counter_methods pinned_methods gen_equiv_pinned 3 (cstate c) args [] b1 b2 (cstate_ok c Hc) Hb) as [E _].
  rewrite E. reflexivity.
Qed.

Local Ltac symex := unfold run_p; cbn; unfold wrap; cbn [tbits].

Lemma c24 : 16777215 = N.ones 24. Proof. reflexivity. Qed.
Lemma p24 : 2 ^ 24 = 16777216. Proof. reflexivity. Qed.
Lemma p32 : 2 ^ 32 = 4294967296. Proof. reflexivity. Qed.
Lemma p16 : 2 ^ 16 = 65536. Proof. reflexivity. Qed.
Lemma p8 : 2 ^ 8 = 256. Proof. reflexivity. Qed.

Lemma mask24_closed c : N.land c (16777215 mod 2 ^ 32) = c mod 2 ^ 24.
Proof. change (16777215 mod 2 ^ 32) with (N.ones 24). apply land_ones_mod. Qed.

(* ---- closed forms (for every 32-bit field value c) ---- *)

Lemma runp_mask c : run_p "maskTo24Bits" c [] = Ok (c mod 2 ^ 24, RNone).
Proof. symex. rewrite mask24_closed. reflexivity. Qed.

Lemma runp_Get c : run_p "Get" c [] = Ok (c mod 2 ^ 24, RVal (c mod 2 ^ 24)).
Proof. symex. rewrite mask24_closed. reflexivity. Qed.

Lemma runp_AddOne c : c < 2 ^ 32 -> run_p "AddOne" c [] = Ok ((c + 1) mod 2 ^ 24, RNone).
Proof.
  intro Hc. symex. rewrite mask24_closed.
  change (1 mod 2 ^ 32) with 1.
  rewrite (mod_mod_pow (c + 1) 24 32) by lia. reflexivity.
Qed.

Lemma runp_SQN c : run_p "SQN" c [] = Ok (c, RVal (c mod 2 ^ 8)).
Proof.
  symex. change (255 mod 2 ^ 32) with (N.ones 8). rewrite land_ones_mod.
  rewrite N.mod_mod by (apply N.pow_nonzero; lia). reflexivity.
Qed.

Lemma runp_Overflow c : c < 2 ^ 32 ->
  run_p "Overflow" c [] = Ok (c, RVal ((c / 2 ^ 8) mod 2 ^ 16)).
Proof.
  intro Hc. symex.
  change (16776960 mod 2 ^ 32) with (N.shiftl (N.ones 16) 8).
  change (8 mod 2 ^ 64) with 8.
  rewrite land_shifted_ones, shiftr_div.
  rewrite N.div_mul by (apply N.pow_nonzero; lia).
  rewrite N.mod_mod by (apply N.pow_nonzero; lia). reflexivity.
Qed.

Lemma land_ffffff00 c : c < 2 ^ 32 -> N.land c 4294967040 = (c / 2 ^ 8) * 2 ^ 8.
Proof.
  intro Hc. change 4294967040 with (N.shiftl (N.ones 24) 8).
  rewrite land_shifted_ones. f_equal. apply N.mod_small.
  rewrite p32 in Hc. rewrite p8, p24. lia.
Qed.

Lemma land_ff0000ff c : c < 2 ^ 32 ->
  N.land c 4278190335 = (c / 2 ^ 24) * 2 ^ 24 + c mod 2 ^ 8.
Proof.
  intro Hc.
  change 4278190335 with (N.lor (N.shiftl (N.ones 8) 24) (N.ones 8)).
  rewrite N.land_lor_distr_r, land_shifted_ones, land_ones_mod.
  rewrite lor_disjoint_add.
  - f_equal. f_equal. apply N.mod_small. rewrite p32 in Hc. rewrite p8, p24. lia.
  - apply N.lt_le_trans with (2 ^ 8).
    + apply N.mod_lt. apply N.pow_nonzero; lia.
    + rewrite p8, p24. lia.
Qed.

Lemma runp_SetSQN c s : c < 2 ^ 32 -> s < 2 ^ 8 ->
  run_p "SetSQN" c [s] = Ok ((c / 2 ^ 8) * 2 ^ 8 + s, RNone).
Proof.
  intros Hc Hs. symex.
  change (4294967040 mod 2 ^ 32) with 4294967040.
  rewrite land_ffffff00 by assumption.
  rewrite (N.mod_small s (2 ^ 8)) by assumption.
  rewrite (N.mod_small s (2 ^ 32)) by (rewrite p32; rewrite p8 in Hs; lia).
  rewrite lor_disjoint_add by assumption. reflexivity.
Qed.

Lemma runp_SetOverflow c o : c < 2 ^ 32 -> o < 2 ^ 16 ->
  run_p "SetOverflow" c [o] =
  Ok ((c / 2 ^ 24) * 2 ^ 24 + o * 2 ^ 8 + c mod 2 ^ 8, RNone).
Proof.
  intros Hc Ho. symex.
  change (4278190335 mod 2 ^ 32) with 4278190335.
  change (8 mod 2 ^ 64) with 8.
  rewrite land_ff0000ff by assumption.
  rewrite (N.mod_small o (2 ^ 16)) by assumption.
  rewrite (N.mod_small o (2 ^ 32)) by (rewrite p32; rewrite p16 in Ho; lia).
  rewrite shiftl_mul.
  rewrite (N.mod_small (o * 2 ^ 8)) by (rewrite p32, p8; rewrite p16 in Ho; lia).
  (* (hi*2^24 + lo) | (o*2^8), all three parts disjoint *)
  assert (Hlo : c mod 2 ^ 8 < 2 ^ 8) by (apply N.mod_lt; apply N.pow_nonzero; lia).
  assert (Ho8 : o * 2 ^ 8 < 2 ^ 24) by (rewrite p8, p24; rewrite p16 in Ho; lia).
  assert (E : c / 2 ^ 24 * 2 ^ 24 + c mod 2 ^ 8 =
              N.lor (c / 2 ^ 24 * 2 ^ 24) (c mod 2 ^ 8)).
  { symmetry. apply lor_disjoint_add.
    apply N.lt_le_trans with (2 ^ 8); [assumption|rewrite p8, p24; lia]. }
  rewrite lor_nocarry_add; [do 2 f_equal; ring|].
  rewrite E, N.land_lor_distr_l.
  rewrite land_disjoint_0 by assumption.
  rewrite N.land_comm, land_disjoint_0 by assumption.
  reflexivity.
Qed.

Lemma runp_Set_compose c o s :
  run_p "Set" c [o; s] =
  (r1 <- run_p "SetOverflow" c [o] ;; r2 <- run_p "SetSQN" (fst r1) [s] ;; Ok (fst r2, RNone)).
Proof.
  unfold run_p; cbn; unfold wrap; cbn [tbits].
  rewrite !N.mod_mod by (apply N.pow_nonzero; lia). reflexivity.
Qed.


(* ---- the same closed forms for the methods of the CURRENT source, by gen_equiv_pinned ---- *)
Local Ltac xfer n := rewrite (run_is_run_p _ _ _ n) by (first [assumption | reflexivity | (eapply N.lt_trans; [eassumption|reflexivity])]).

Lemma lt32_64 c : c < 2 ^ 32 -> c < 2 ^ 64.
Proof. intro H. eapply N.lt_trans; [exact H|reflexivity]. Qed.

Lemma run_mask c : c < 2 ^ 64 -> run "maskTo24Bits" c [] = Ok (c mod 2 ^ 24, RNone).
Proof. intro H. rewrite (run_is_run_p "maskTo24Bits" c [] 0%nat H eq_refl eq_refl). apply runp_mask. Qed.

Lemma run_Get c : c < 2 ^ 64 -> run "Get" c [] = Ok (c mod 2 ^ 24, RVal (c mod 2 ^ 24)).
Proof. intro H. rewrite (run_is_run_p "Get" c [] 0%nat H eq_refl eq_refl). apply runp_Get. Qed.

Lemma run_AddOne c : c < 2 ^ 32 -> run "AddOne" c [] = Ok ((c + 1) mod 2 ^ 24, RNone).
Proof. intro H. rewrite (run_is_run_p "AddOne" c [] 0%nat (lt32_64 c H) eq_refl eq_refl). apply runp_AddOne. exact H. Qed.

Lemma run_SQN c : c < 2 ^ 64 -> run "SQN" c [] = Ok (c, RVal (c mod 2 ^ 8)).
Proof. intro H. rewrite (run_is_run_p "SQN" c [] 0%nat H eq_refl eq_refl). apply runp_SQN. Qed.

Lemma run_Overflow c : c < 2 ^ 32 ->
  run "Overflow" c [] = Ok (c, RVal ((c / 2 ^ 8) mod 2 ^ 16)).
Proof. intro H. rewrite (run_is_run_p "Overflow" c [] 0%nat (lt32_64 c H) eq_refl eq_refl). apply runp_Overflow. exact H. Qed.

Lemma run_SetSQN c s : c < 2 ^ 32 -> s < 2 ^ 8 ->
  run "SetSQN" c [s] = Ok ((c / 2 ^ 8) * 2 ^ 8 + s, RNone).
Proof. intros H Hs. rewrite (run_is_run_p "SetSQN" c [s] 1%nat (lt32_64 c H) eq_refl eq_refl). apply runp_SetSQN; assumption. Qed.

Lemma run_SetOverflow c o : c < 2 ^ 32 -> o < 2 ^ 16 ->
  run "SetOverflow" c [o] =
  Ok ((c / 2 ^ 24) * 2 ^ 24 + o * 2 ^ 8 + c mod 2 ^ 8, RNone).
Proof. intros H Ho. rewrite (run_is_run_p "SetOverflow" c [o] 1%nat (lt32_64 c H) eq_refl eq_refl). apply runp_SetOverflow; assumption. Qed.

Lemma run_Set_compose c o s : c < 2 ^ 32 -> o < 2 ^ 16 ->
  run "Set" c [o; s] =
  (r1 <- run "SetOverflow" c [o] ;; r2 <- run "SetSQN" (fst r1) [s] ;; Ok (fst r2, RNone)).
Proof.
  intros Hc Ho.
  rewrite (run_is_run_p "Set" c [o; s] 2%nat (lt32_64 c Hc) eq_refl eq_refl), runp_Set_compose.
  rewrite runp_SetOverflow, run_SetOverflow by assumption. cbn [obind fst].
  assert (Hx : c / 2 ^ 24 * 2 ^ 24 + o * 2 ^ 8 + c mod 2 ^ 8 < 2 ^ 64).
  { apply lt32_64. rewrite p32, p24, p8 in *. rewrite p16 in Ho. lia. }
  rewrite (run_is_run_p "SetSQN" _ [s] 1%nat Hx eq_refl eq_refl). reflexivity.
Qed.

(* ---- the abstract counter: overflow (16 bits) || sequence number (8 bits) ---- *)

Definition abs (c : N) : N * N := (c / 2 ^ 8, c mod 2 ^ 8).

Definition spec_step (a : N * N) (o : cop) : (N * N) * retv :=
  let '(ovf, sqn) := a in
  match o with
  | OpSet ovf' sqn' => ((ovf', sqn'), RNone)
  | OpSetSQN sqn' => ((ovf, sqn'), RNone)
  | OpSetOverflow ovf' => ((ovf', sqn), RNone)
  | OpAddOne =>
      (if sqn =? 255 then ((ovf + 1) mod 2 ^ 16, 0) else (ovf, sqn + 1), RNone)
  | OpGet => ((ovf, sqn), RVal (ovf * 256 + sqn))
  | OpSQN => ((ovf, sqn), RVal sqn)
  | OpOverflow => ((ovf, sqn), RVal ovf)
  end.

Lemma inv_lt32 c : Inv c -> c < 2 ^ 32.
Proof. unfold Inv. rewrite p24, p32. lia. Qed.

Lemma Inv_0 : Inv 0.
Proof. unfold Inv. rewrite p24. lia. Qed.

(* one step refines the abstract counter and keeps the invariant *)
Lemma step_refines c o :
  Inv c -> op_args_ok o ->
  exists c' r, step c o = Ok (c', r) /\ Inv c' /\
               (abs c', r) = spec_step (abs c) o.
Proof.
  intros Hc Ha. pose proof (inv_lt32 c Hc) as Hc32.
  unfold Inv in *. rewrite p24 in *.
  destruct o as [ovf sqn|sqn|ovf| | | |]; cbn [step op_args_ok] in *.
  - destruct Ha as [Ho Hs].
    rewrite run_Set_compose, run_SetOverflow by (rewrite ?p16; assumption).
    cbn [obind fst].
    rewrite run_SetSQN; [|rewrite p32, p24, p8 in *; lia|rewrite p8; assumption].
    cbn [obind fst].
    eexists _, _. split; [reflexivity|].
    rewrite p32, p24, p8 in *. unfold abs, spec_step. rewrite p8.
    split; [lia|]. f_equal. f_equal; lia.
  - rewrite run_SetSQN by (rewrite ?p8; assumption).
    eexists _, _. split; [reflexivity|].
    rewrite p8 in *. unfold abs, spec_step. rewrite p8.
    split; [lia|]. f_equal. f_equal; lia.
  - rewrite run_SetOverflow by (rewrite ?p16; assumption).
    eexists _, _. split; [reflexivity|].
    rewrite p24, p8 in *. unfold abs, spec_step. rewrite p8.
    split; [lia|]. f_equal. f_equal; lia.
  - rewrite run_AddOne by assumption.
    eexists _, _. split; [reflexivity|].
    rewrite p24. unfold abs, spec_step. rewrite p8, p16.
    split; [lia|].
    destruct (N.eqb_spec (c mod 256) 255) as [E|E]; f_equal; f_equal; lia.
  - rewrite run_Get by (apply lt32_64; assumption).
    eexists _, _. split; [reflexivity|].
    rewrite p24. unfold abs, spec_step. rewrite p8.
    split; [lia|]. f_equal; [f_equal; lia|f_equal; lia].
  - rewrite run_SQN by (apply lt32_64; assumption).
    eexists _, _. split; [reflexivity|].
    unfold abs, spec_step. split; [lia|]. reflexivity.
  - rewrite run_Overflow by assumption.
    eexists _, _. split; [reflexivity|].
    unfold abs, spec_step. rewrite p8, p16. split; [lia|]. f_equal. f_equal. lia.
Qed.

Fixpoint spec_run (a : N * N) (ops : list cop) : (N * N) * list retv :=
  match ops with
  | [] => (a, [])
  | o :: t =>
      let '(a1, r) := spec_step a o in
      let '(a2, rs) := spec_run a1 t in (a2, r :: rs)
  end.

(* every history from every state satisfying the invariant *)
Lemma histories_refine ops : forall c,
  Inv c -> Forall op_args_ok ops ->
  exists c' rs, run_ops c ops = Ok (c', rs) /\ Inv c' /\
                (abs c', rs) = spec_run (abs c) ops.
Proof.
  induction ops as [|o t IH]; intros c Hc Hops.
  - exists c, []. cbn. auto.
  - inversion Hops as [|? ? Ho Ht]; subst.
    destruct (step_refines c o Hc Ho) as (c1 & r & Hs & Hi & Hsp).
    destruct (IH c1 Hi Ht) as (c2 & rs & Hr & Hi2 & Hsp2).
    exists c2, (r :: rs). cbn [run_ops]. rewrite Hs. cbn [obind fst snd].
    rewrite Hr. cbn [obind fst snd]. split; [reflexivity|]. split; [assumption|].
    cbn [spec_run]. rewrite <- Hsp. rewrite <- Hsp2. reflexivity.
Qed.

Lemma value_decomposes c : Inv c ->
  c = fst (abs c) * 256 + snd (abs c) /\ fst (abs c) < 2 ^ 16 /\ snd (abs c) < 2 ^ 8.
Proof.
  unfold Inv, abs. rewrite p24, p16, p8. cbn [fst snd]. intro. lia.
Qed.
