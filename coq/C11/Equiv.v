(* C11: a decision procedure for "two method tables compute the same thing", so that the counter laws
   (proved once on a pinned copy of the translated methods) transfer to whatever security/counter.go
   says now, as long as each expression is either syntactically the pinned one or has the same
   bit-provenance vector (C09/Abs.v: every one of its 64 result bits is a constant or a copy of a
   named bit of the field / of the parameter).  Equivalent masks, &^ vs & with the complement, a cast
   instead of a mask, + vs | on disjoint bits ... are accepted; anything else is not. *)
From NV Require Import Lib.Base Lib.Bits Lib.BV C09.Abs C09.AbsSound.
From Coq Require Import String ZifyN ZifyNat ZifyBool.
Open Scope N_scope.

Definition ty_eqb (a b : ty) : bool :=
  match a, b with U8, U8 | U16, U16 | U32, U32 | U64, U64 => true | _, _ => false end.
Definition binop_eqb (a b : binop) : bool :=
  match a, b with
  | OAnd, OAnd | OOr, OOr | OXor, OXor | OAdd, OAdd | OSub, OSub | OShl, OShl | OShr, OShr | OAndNot, OAndNot => true
  | _, _ => false
  end.

Fixpoint expr_eqb (a b : expr) : bool :=
  match a, b with
  | EConst t n, EConst u m => ty_eqb t u && (n =? m)
  | EParam k t, EParam j u => Nat.eqb k j && ty_eqb t u
  | EOct i, EOct j => Nat.eqb i j
  | EFld f, EFld g => fld_eqb f g
  | EBin o t x y, EBin p u x' y' => binop_eqb o p && ty_eqb t u && expr_eqb x x' && expr_eqb y y'
  | ECast t x, ECast u x' => ty_eqb t u && expr_eqb x x'
  | EMask x y, EMask x' y' => expr_eqb x x' && expr_eqb y y'
  | _, _ => false
  end.

Lemma ty_eqb_eq a b : ty_eqb a b = true -> a = b.
Proof. destruct a, b; cbn; congruence. Qed.
Lemma binop_eqb_eq a b : binop_eqb a b = true -> a = b.
Proof. destruct a, b; cbn; congruence. Qed.
Lemma fld_eqb_eq a b : fld_eqb a b = true -> a = b.
Proof. destruct a, b; cbn; congruence. Qed.

Lemma expr_eqb_eq a : forall b, expr_eqb a b = true -> a = b.
Proof.
  induction a as [t n|k t|o|f|op t x IHx y IHy|t x IHx|x IHx y IHy|]; intros b H; destruct b; cbn in H; try discriminate.
  - apply andb_true_iff in H as [H1 H2]. apply ty_eqb_eq in H1. apply N.eqb_eq in H2. congruence.
  - apply andb_true_iff in H as [H1 H2]. apply Nat.eqb_eq in H1. apply ty_eqb_eq in H2. congruence.
  - apply Nat.eqb_eq in H. congruence.
  - apply fld_eqb_eq in H. congruence.
  - apply andb_true_iff in H as [H H4]. apply andb_true_iff in H as [H H3]. apply andb_true_iff in H as [H1 H2].
    apply binop_eqb_eq in H1. apply ty_eqb_eq in H2. apply IHx in H3. apply IHy in H4. congruence.
  - apply andb_true_iff in H as [H1 H2]. apply ty_eqb_eq in H1. apply IHx in H2. congruence.
  - apply andb_true_iff in H as [H1 H2]. apply IHx in H1. apply IHy in H2. congruence.
Qed.

(* expressions that always evaluate: constants, fields, the first n parameters, operators, casts *)
Fixpoint etotal (n : nat) (e : expr) : bool :=
  match e with
  | EConst _ _ | EFld _ => true
  | EParam k _ => Nat.ltb k n
  | EBin _ _ a b => etotal n a && etotal n b
  | ECast _ a => etotal n a
  | EOct _ | EMask _ _ | EUnknown => false
  end.

Lemma etotal_ok mb s ps e : etotal (List.length ps) e = true -> exists r, eval mb s ps e = Ok r.
Proof.
  induction e as [t n|k t|o|f|op t a IHa b IHb|t a IHa|a IHa b IHb|]; cbn [etotal]; intro H; try discriminate.
  - eexists. reflexivity.
  - apply Nat.ltb_lt in H. unfold eval. cbn [eval_gen].
    destruct (nth_error ps k) eqn:E; [eexists; reflexivity|]. apply nth_error_None in E. lia.
  - eexists. reflexivity.
  - apply andb_true_iff in H as [H1 H2]. destruct (IHa H1) as (x & Ex). destruct (IHb H2) as (y & Ey).
    rewrite eval_bin, Ex, Ey. eexists. reflexivity.
  - destruct (IHa H) as (x & Ex). rewrite eval_cast, Ex. eexists. reflexivity.
Qed.

Definition aequiv (mb e1 e2 : expr) : bool :=
  forallb (fun i => abit_eqb (aeval mb e1 i) (aeval mb e2 i)) idx64.

Definition expr_equiv (mb : expr) (n : nat) (e1 e2 : expr) : bool :=
  expr_eqb e1 e2 || (etotal n e1 && etotal n e2 && aequiv mb e1 e2).

Lemma hi0_lt_inv n : hi0 n -> n < 2 ^ 64.
Proof.
  intro H. assert (E : n = n mod 2 ^ 64).
  { apply N.bits_inj. intro i. destruct (N.ltb_spec i 64) as [Hi|Hi].
    - rewrite N.mod_pow2_bits_low by assumption. reflexivity.
    - rewrite N.mod_pow2_bits_high by assumption. apply H. assumption. }
  rewrite E. apply N.mod_lt. apply N.pow_nonzero. lia.
Qed.

Lemma expr_equiv_sound mb s ps e1 e2 : mask_closed mb = true -> st_ok s ->
  expr_equiv mb (List.length ps) e1 e2 = true -> eval mb s ps e1 = eval mb s ps e2.
Proof.
  intros Hmb Hs H. unfold expr_equiv in H. apply orb_true_iff in H as [H|H].
  - apply expr_eqb_eq in H. subst. reflexivity.
  - apply andb_true_iff in H as [H Ha]. apply andb_true_iff in H as [T1 T2].
    destruct (etotal_ok mb s ps e1 T1) as (r1 & E1). destruct (etotal_ok mb s ps e2 T2) as (r2 & E2).
    rewrite E1, E2. f_equal.
    pose proof (aeval_sound_ps mb s ps e1 Hmb Hs r1 E1) as R1.
    pose proof (aeval_sound_ps mb s ps e2 Hmb Hs r2 E2) as R2.
    pose proof (eval_hi mb s ps e1 r1 Hs E1) as H1. pose proof (eval_hi mb s ps e2 r2 Hs E2) as H2.
    apply N.bits_inj. intro i. destruct (N.ltb_spec i 64) as [Hi|Hi].
    + unfold aequiv in Ha. rewrite forallb_forall in Ha. specialize (Ha i (in_idx64 i Hi)).
      pose proof (abit_eqb_eq _ _ Ha) as Eab.
      destruct (sem (env_of s (nth 0 ps 0)) (aeval mb e1 i)) as [b|] eqn:Es.
      * rewrite (R1 i b Es). symmetry. apply R2. rewrite <- Eab. exact Es.
      * (* an unknown bit is not equal to itself under abit_eqb *)
        exfalso. destruct (aeval mb e1 i); cbn in Es; try discriminate Es. cbn in Ha. discriminate Ha.
    + rewrite (H1 i Hi), (H2 i Hi). reflexivity.
Qed.

(* ---------- statements and method tables ---------- *)
Fixpoint list_equiv {A} (f : A -> A -> bool) (a b : list A) : bool :=
  match a, b with
  | [], [] => true
  | x :: a', y :: b' => f x y && list_equiv f a' b'
  | _, _ => false
  end.

Definition mtable := list (string * (nat * list stmt)).   (* name, number of scalar parameters, body *)

Fixpoint arity_of (t : mtable) (m : string) : option nat :=
  match t with
  | [] => None
  | (k, (n, _)) :: r => if String.eqb m k then Some n else arity_of r m
  end.

Section Equiv.
  Variable mb : expr.
  Variable pinned : mtable.

  Definition stmt_equiv (n : nat) (s1 s2 : stmt) : bool :=
    match s1, s2 with
    | SSetFld f e1, SSetFld g e2 => fld_eqb f g && expr_equiv mb n e1 e2
    | SRet e1, SRet e2 => expr_equiv mb n e1 e2
    | SCallM m a1, SCallM m' a2 =>
        String.eqb m m' && list_equiv (expr_equiv mb n) a1 a2 &&
        match arity_of pinned m with Some k => Nat.eqb k (List.length a1) | None => false end
    | _, _ => false
    end.

  (* gen: the freshly translated methods (name, body); same names in the same order as pinned *)
  Fixpoint table_equiv (gen : list (string * list stmt)) (pin : mtable) : bool :=
    match gen, pin with
    | [], [] => true
    | (k, b) :: g, (k', (n, b')) :: p => String.eqb k k' && list_equiv (stmt_equiv n) b b' && table_equiv g p
    | _, _ => false
    end.
End Equiv.

Fixpoint assoc_s {A} (k : string) (l : list (string * A)) : option A :=
  match l with
  | [] => None
  | (k', v) :: t => if String.eqb k k' then Some v else assoc_s k t
  end.

Section ExecEquiv.
  Variable mb : expr.
  Hypothesis Hmb : mask_closed mb = true.
  Variable gen : list (string * list stmt).
  Variable pin : mtable.
  Hypothesis Hte : table_equiv mb pin gen pin = true.

  Definition lk1 (m : string) : option (list stmt) := assoc_s m gen.
  Definition lk2 (m : string) : option (list stmt) := option_map snd (assoc_s m pin).

  Lemma lookup_equiv m : forall g p, table_equiv mb pin g p = true ->
    match assoc_s m g, assoc_s m p with
    | Some b1, Some (n, b2) => list_equiv (stmt_equiv mb pin n) b1 b2 = true
    | None, None => True
    | _, _ => False
    end.
  Proof.
    induction g as [|[k b] g IH]; intros [|[k' [n b']] p] H; cbn [table_equiv] in H; try discriminate; cbn [assoc_s]; [exact I|].
    apply andb_true_iff in H as [H H3]. apply andb_true_iff in H as [H1 H2].
    apply String.eqb_eq in H1. subst k'.
    destruct (String.eqb m k); [exact H2|apply IH; exact H3].
  Qed.

  Lemma arity_assoc m : forall p, arity_of p m = match assoc_s m p with Some (n, _) => Some n | None => None end.
  Proof.
    induction p as [|[k [n b]] p IH]; cbn [arity_of assoc_s]; [reflexivity|].
    destruct (String.eqb m k); [reflexivity|exact IH].
  Qed.

  Lemma st_ok_setf s f v : st_ok s -> hi0 v -> st_ok (setf s f v).
  Proof.
    intros (A & B & C & D) Hv. apply hi0_lt_inv in Hv. destruct f; cbn; repeat split; assumption.
  Qed.

  Lemma eval_args_equiv s ps : st_ok s -> forall a1 a2,
    list_equiv (expr_equiv mb (List.length ps)) a1 a2 = true ->
    eval_args mb s ps a1 = eval_args mb s ps a2.
  Proof.
    intros Hs. induction a1 as [|e t IH]; intros [|e' t'] H; cbn [list_equiv] in H; try discriminate; [reflexivity|].
    apply andb_true_iff in H as [H1 H2]. cbn [eval_args]. unfold eval1.
    rewrite (expr_equiv_sound mb s ps e e' Hmb Hs H1), (IH t' H2). reflexivity.
  Qed.

  Lemma eval_args_length s ps : forall a vs, eval_args mb s ps a = Ok vs -> List.length vs = List.length a.
  Proof.
    induction a as [|e t IH]; intros vs H; cbn [eval_args] in H; [inversion H; reflexivity|].
    destruct (eval1 mb s ps e); try discriminate. cbn [obind] in H.
    destruct (eval_args mb s ps t) as [vt| | |] eqn:E; try discriminate. cbn [obind] in H. inversion H; subst.
    cbn. f_equal. apply IH. reflexivity.
  Qed.

  Lemma list_equiv_length {A} (f : A -> A -> bool) : forall a b, list_equiv f a b = true -> List.length a = List.length b.
  Proof. induction a as [|x t IH]; intros [|y u] H; cbn in H; try discriminate; [reflexivity|].
    apply andb_true_iff in H as [_ H]. cbn. f_equal. apply IH. exact H. Qed.

  (* unfolding equations of the interpreter (so that proofs never unfold the nested fixpoint) *)
  Lemma exec_nil lk fuel s ps pb : exec mb lk fuel s ps pb [] = Ok (s, RNone).
  Proof. destruct fuel; reflexivity. Qed.
  Lemma exec_setfld lk fuel s ps pb f e rest :
    exec mb lk fuel s ps pb (SSetFld f e :: rest) = (v <- eval1 mb s ps e ;; exec mb lk fuel (setf s f v) ps pb rest).
  Proof. destruct fuel; reflexivity. Qed.
  Lemma exec_ret lk fuel s ps pb e rest :
    exec mb lk fuel s ps pb (SRet e :: rest) = (v <- eval1 mb s ps e ;; Ok (s, RVal v)).
  Proof. destruct fuel; reflexivity. Qed.
  Lemma exec_call0 lk s ps pb m args rest : exec mb lk O s ps pb (SCallM m args :: rest) = OutOfFuel.
  Proof. reflexivity. Qed.
  Lemma exec_callS lk f s ps pb m args rest :
    exec mb lk (S f) s ps pb (SCallM m args :: rest) =
    match lk m with
    | None => Panic
    | Some b => vs <- eval_args mb s ps args ;; r <- exec mb lk f s vs [] b ;; exec mb lk (S f) (fst r) ps pb rest
    end.
  Proof. reflexivity. Qed.

  Theorem exec_equiv : forall fuel s ps pb b1 b2, st_ok s ->
    list_equiv (stmt_equiv mb pin (List.length ps)) b1 b2 = true ->
    exec mb lk1 fuel s ps pb b1 = exec mb lk2 fuel s ps pb b2 /\
    (forall s' r, exec mb lk2 fuel s ps pb b2 = Ok (s', r) -> st_ok s').
  Proof.
    induction fuel as [|f IHf]; intros s ps pb b1; revert s;
      (induction b1 as [|c rest IH]; intros s [|c' rest'] Hs H; cbn [list_equiv] in H; try discriminate;
       [rewrite !exec_nil; split; [reflexivity|]; intros s' r E; inversion E; subst; exact Hs|]);
      apply andb_true_iff in H as [Hc Hr];
      destruct c, c'; cbn [stmt_equiv] in Hc; try discriminate.
    - apply andb_true_iff in Hc as [Hf He]. apply fld_eqb_eq in Hf. subst.
      rewrite !exec_setfld. unfold eval1. rewrite (expr_equiv_sound mb s ps _ _ Hmb Hs He).
      destruct (eval mb s ps e0) as [v| | |] eqn:Ev; cbn [obind]; try (split; [reflexivity|discriminate]).
      apply (IH (setf s f0 v) rest'); [|exact Hr]. apply st_ok_setf; [exact Hs|]. eapply eval_hi; eassumption.
    - rewrite !exec_ret. unfold eval1. rewrite (expr_equiv_sound mb s ps _ _ Hmb Hs Hc).
      destruct (eval mb s ps e0) as [v| | |]; cbn [obind]; split; try reflexivity; try discriminate.
      intros s' r E. inversion E; subst. exact Hs.
    - rewrite !exec_call0. split; [reflexivity|discriminate].
    - apply andb_true_iff in Hc as [Hf He]. apply fld_eqb_eq in Hf. subst.
      rewrite !exec_setfld. unfold eval1. rewrite (expr_equiv_sound mb s ps _ _ Hmb Hs He).
      destruct (eval mb s ps e0) as [v| | |] eqn:Ev; cbn [obind]; try (split; [reflexivity|discriminate]).
      apply (IH (setf s f1 v) rest'); [|exact Hr]. apply st_ok_setf; [exact Hs|]. eapply eval_hi; eassumption.
    - rewrite !exec_ret. unfold eval1. rewrite (expr_equiv_sound mb s ps _ _ Hmb Hs Hc).
      destruct (eval mb s ps e0) as [v| | |]; cbn [obind]; split; try reflexivity; try discriminate.
      intros s' r E. inversion E; subst. exact Hs.
    - apply andb_true_iff in Hc as [Hc Har]. apply andb_true_iff in Hc as [Hm Hargs].
      apply String.eqb_eq in Hm. subst m0.
      rewrite !exec_callS.
      assert (E1 : lk1 m = assoc_s m gen) by reflexivity. assert (E2 : lk2 m = option_map snd (assoc_s m pin)) by reflexivity.
      rewrite E1, !E2. clear E1 E2.
      pose proof (lookup_equiv m gen pin Hte) as Hl. rewrite arity_assoc in Har.
      destruct (assoc_s m gen) as [bb1|]; destruct (assoc_s m pin) as [[n bb2]|]; try contradiction; try discriminate Har.
      cbn [option_map snd]. apply Nat.eqb_eq in Har.
      rewrite (eval_args_equiv s ps Hs _ _ Hargs).
      destruct (eval_args mb s ps args0) as [vs| | |] eqn:Ea; cbn [obind]; try (split; [reflexivity|discriminate]).
      assert (Lvs : List.length vs = n).
      { rewrite (eval_args_length _ _ _ _ Ea). rewrite <- (list_equiv_length _ _ _ Hargs). symmetry. exact Har. }
      rewrite <- Lvs in Hl.
      destruct (IHf s vs [] bb1 bb2 Hs Hl) as (Eq & Ok'). rewrite Eq.
      destruct (exec mb lk2 f s vs [] bb2) as [[s1 r1]| | |] eqn:Ex; cbn [obind fst];
        try (split; [reflexivity|discriminate]).
      apply (IH s1 rest'); [|exact Hr]. eapply Ok'. reflexivity.
  Qed.
End ExecEquiv.
