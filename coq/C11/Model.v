(* C11: executable model of security/counter.go = the BV interpreter applied to
   the freshly translated method bodies (Gen/GenCounter.v). *)
From NV Require Import Lib.Base Lib.BV Gen.GenCounter.
From Coq Require Import String.
Open Scope N_scope.

Fixpoint assoc {A} (k : string) (l : list (string * A)) : option A :=
  match l with
  | [] => None
  | (k', v) :: t => if String.eqb k k' then Some v else assoc k t
  end.

Definition cmethods (m : string) : option (list stmt) := assoc m counter_methods.

(* counter.go does not call GetBitMask *)
Definition no_mask : expr := EUnknown.

Definition cstate (c : N) : st := mkst 0 0 [] c.

(* run method [m] with scalar arguments [args] on counter value [c] *)
Definition run (m : string) (c : N) (args : list N) : outcome (N * retv) :=
  match cmethods m with
  | None => Panic
  | Some b =>
      r <- exec no_mask cmethods 3 (cstate c) args [] b ;;
      Ok (s_cnt (fst r), snd r)
  end.

Inductive cop :=
| OpSet (ovf sqn : N)      (* ovf < 2^16, sqn < 2^8: Go's parameter types *)
| OpSetSQN (sqn : N)
| OpSetOverflow (ovf : N)
| OpAddOne
| OpGet
| OpSQN
| OpOverflow.

Definition op_args_ok (o : cop) : Prop :=
  match o with
  | OpSet ovf sqn => ovf < 65536 /\ sqn < 256
  | OpSetSQN sqn => sqn < 256
  | OpSetOverflow ovf => ovf < 65536
  | _ => True
  end.

Definition step (c : N) (o : cop) : outcome (N * retv) :=
  match o with
  | OpSet ovf sqn => run "Set" c [ovf; sqn]
  | OpSetSQN sqn => run "SetSQN" c [sqn]
  | OpSetOverflow ovf => run "SetOverflow" c [ovf]
  | OpAddOne => run "AddOne" c []
  | OpGet => run "Get" c []
  | OpSQN => run "SQN" c []
  | OpOverflow => run "Overflow" c []
  end.

(* run a history; collects the observable results *)
Fixpoint run_ops (c : N) (ops : list cop) : outcome (N * list retv) :=
  match ops with
  | [] => Ok (c, [])
  | o :: t =>
      r <- step c o ;;
      r' <- run_ops (fst r) t ;;
      Ok (fst r', snd r :: snd r')
  end.
