(* C11: executable model of security/counter.go = the BV interpreter applied to
   the freshly translated method bodies (Gen/GenCounter.v). *)
From NV Require Import Lib.Base Lib.BV Gen.GenCounter C11.Equiv.
From Coq Require Import String.
Open Scope N_scope.

Fixpoint assoc {A} (k : string) (l : list (string * A)) : option A :=
  match l with
  | [] => None
  | (k', v) :: t => if String.eqb k k' then Some v else assoc k t
  end.

Definition cmethods : string -> option (list stmt) := lk1 counter_methods.

(* counter.go does not call GetBitMask (any closed expression will do as its body) *)
Definition no_mask : expr := EConst U8 0.

Definition cstate (c : N) : st := mkst 0 0 [] c.

(* run method [m] with scalar arguments [args] on counter value [c] *)
Definition run (m : string) (c : N) (args : list N) : outcome (N * retv) :=
  match cmethods m with
  | None => Panic
  | Some b =>
      r <- exec no_mask cmethods 3 (cstate c) args [] b ;;
      Ok (s_cnt (fst r), snd r)
  end.

(* PINNED copy of the translated methods (with the number of scalar parameters): the counter laws are
   proved on these; Proofs.v shows (kernel-evaluated, on every run) that the methods translated from
   the current source are equivalent to them expression by expression (C11/Equiv.v), so a rewrite of
   counter.go into equivalent bit operations re-proves nothing and breaks nothing *)
Definition pinned_methods : mtable :=
[ ("maskTo24Bits"%string, (0%nat, [SSetFld FCount (EBin OAnd U32 (EFld FCount) (EConst U32 16777215))]));
  ("Set"%string, (2%nat, [SCallM "SetOverflow"%string [(EParam 0 U16)]; SCallM "SetSQN"%string [(EParam 1 U8)]]));
  ("Get"%string, (0%nat, [SCallM "maskTo24Bits"%string []; SRet (EFld FCount)]));
  ("AddOne"%string, (0%nat, [SSetFld FCount (EBin OAdd U32 (EFld FCount) (EConst U32 1)); SCallM "maskTo24Bits"%string []]));
  ("SQN"%string, (0%nat, [SRet (ECast U8 (EBin OAnd U32 (EFld FCount) (EConst U32 255)))]));
  ("SetSQN"%string, (1%nat, [SSetFld FCount (EBin OOr U32 (EBin OAnd U32 (EFld FCount) (EConst U32 4294967040)) (ECast U32 (EParam 0 U8)))]));
  ("Overflow"%string, (0%nat, [SRet (ECast U16 (EBin OShr U32 (EBin OAnd U32 (EFld FCount) (EConst U32 16776960)) (EConst U64 8)))]));
  ("SetOverflow"%string, (1%nat, [SSetFld FCount (EBin OOr U32 (EBin OAnd U32 (EFld FCount) (EConst U32 4278190335)) (EBin OShl U32 (ECast U32 (EParam 0 U16)) (EConst U64 8)))])) ].

Definition pmethods : string -> option (list stmt) := lk2 pinned_methods.

Definition run_p (m : string) (c : N) (args : list N) : outcome (N * retv) :=
  match pmethods m with
  | None => Panic
  | Some b =>
      r <- exec no_mask pmethods 3 (cstate c) args [] b ;;
      Ok (s_cnt (fst r), snd r)
  end.

Inductive cop :=
| OpSet (ovf sqn : N)      (* ovf < 2^16, sqn < 2^8: Go's parameter types *)
| OpSetSQN (sqn : N)
| OpSetOverflow (ovf : N)
| OpAddOne
| OpGet
| OpSQN
| OpOverflow.

Definition op_args_ok (o : cop) : Prop :=
  match o with
  | OpSet ovf sqn => ovf < 65536 /\ sqn < 256
  | OpSetSQN sqn => sqn < 256
  | OpSetOverflow ovf => ovf < 65536
  | _ => True
  end.

Definition step (c : N) (o : cop) : outcome (N * retv) :=
  match o with
  | OpSet ovf sqn => run "Set" c [ovf; sqn]
  | OpSetSQN sqn => run "SetSQN" c [sqn]
  | OpSetOverflow ovf => run "SetOverflow" c [ovf]
  | OpAddOne => run "AddOne" c []
  | OpGet => run "Get" c []
  | OpSQN => run "SQN" c []
  | OpOverflow => run "Overflow" c []
  end.

(* run a history; collects the observable results *)
Fixpoint run_ops (c : N) (ops : list cop) : outcome (N * list retv) :=
  match ops with
  | [] => Ok (c, [])
  | o :: t =>
      r <- step c o ;;
      r' <- run_ops (fst r) t ;;
      Ok (fst r', snd r :: snd r')
  end.
