# reg, TB_COMMON and CODEC_TB are injected by lib/props.py
reg(id="C19",
    gen=["globals"],
    race=True,
    proof_targets=["Props/C19.vo"],
    props_file="Props/C19.v",
    level="other",
    technique="Rocq/Coq proof of schedule independence under a footprint hypothesis + kernel-checked inventory of package-level state regenerated from the source; Go race detector run as supporting evidence (partial)",
    rule="64 goroutines x 3 (quick) / 25 (thorough) rounds, each running 120/400 mixed library calls (decode+encode of repository vectors, NASEncrypt/NASMacCalculate algs 0-3, accessors, conversions, NAS COUNT, ID allocator, message codec) on values private to the goroutine plus read-only use of one shared decoded message, under the Go race detector; each goroutine's result digest must equal that of the same program run alone; non-trivial/distinct = one goroutine program (seed)",
    trusted_base=TB_COMMON + ["the Go memory model, scheduler and race detector; logrus (external, internally synchronised)",
                              "the footprint hypothesis of the interleaving theorem is established only as far as package-level state goes (globals_ok); sharing through pointers inside API values is exercised by the race run, not proved"],
    assumptions=["PARTIAL: the theorem is about an abstract heap of locations with per-thread ownership; its hypothesis for the real code (every library call touches only its arguments and read-only globals) is checked syntactically for package-level variables and by the race detector for everything else"],
    explanation="Partial. Proved: any complete interleaving of any number of threads with private write footprints and read-only shared state equals running each thread alone (C19_interleaving, C19_schedule_independent); kernel-checked on the fresh translation: the library's only package-level variables are the cipher tables and logrus entries, none is written, address-taken, sliced or passed on outside init, and the codec packages import no clock/randomness/os/sync/unsafe (C19_no_global_writes). Not modelled: Go memory model, scheduler, logrus; that part is covered by a 64-goroutine race-detector run comparing against sequential results.")
