# reg, TB_COMMON and CODEC_TB are injected by lib/props.py
reg(id="C01",
    gen=["msgs", "accessors", "globals"],
    harness_cmd="c01",
    model_targets=["Codec/Corr.vo"],
    proof_targets=["Props/C01.vo"],
    props_file="Props/C01.v",
    mismatch_is_failure=False,
    level="proof",
    rule="corpus (repo vectors) + directed set (45 messages x every slot x declared lengths {0,1,min-1,min,min+1,mid,max-1,max,max+1,cap,cap+1,255,256[,65535]} x truncation points) + structured random element sequences (reordered/duplicated/unknown identifiers) + malformed random + 256x256 (discriminator,type) grid at both offsets through the three entry points + inputs up to 70 000 octets at thorough; oracle: no panic, no hang, allocation <= 64*len+4096+3*65536; non-trivial = input that passes the header; distinct by input",
    trusted_base=CODEC_TB,
    assumptions=["nasMessage/*.go, nas.go, nas_generated.go, nasType shapes are re-translated on every run",
                 "work/allocation bound: proved over the cost model Codec/Cost.v (what each template statement executes and allocates: 1 step per binary.Read/check/SetLen, 3 per loop iteration, the element struct per NewX, the requested octets per read even when the input is short); the cost model itself is hand-written and tied to the code by the template equality (canon_ok) plus the harness measuring runtime.MemStats.TotalAlloc per decode against 64*len+4096+3*65536"],
    explanation="Theorems: every generated decoder is the generator template (canon_ok, kernel-evaluated on the fresh translation); for every well-formed definition and every byte string decode_def returns Ok or Err (no slice panic, fuel |bs|+1 never exhausted); same through GmmMessageDecode/GsmMessageDecode/PlainNasDecode; decode_cost_bound: steps <= 4|d|+8|bs|+1 and allocated octets <= (max_struct+3)|bs| + 2*(2*65536+2) + 2*max_struct for every definition passing cost_defb (checked on the fresh translation), with a witness that the 65535-octet term is reached. Correspondence + Go-side oracle on ~10^4 directed/random inputs.")
