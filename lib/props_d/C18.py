# reg and TB_COMMON are injected by lib/props.py
reg(id="C18",
    gen=["globals"],
    model_targets=["C18/Corr.vo"],
    proof_targets=["Props/C18.vo"],
    props_file="Props/C18.v",
    mismatch_is_failure=False,
    level="proof",
    rule="five decoders (UePolDeliverySerDecode, section-management list / result IE, nested list content / result content) on: corpus (F16/F17 witnesses, PLMN nibble boundaries, Len 0/1 parts), every truncation point and every 16-bit length field set to 0/1/2/3/actual-1/actual+1/65535 of API-built encodings, one-octet mutations, random octets (all from one SplitMix64 stream); nested lists built through the API for every shape 0..3 sublists x 0..3 instructions x 0..3 parts, every part type, content lengths 0/1/2/3/16/255/256/1500/65525 and garbage values preset in every Len field (parts, instructions, sublists), encoded, compared with an independent reference encoder, decoded and compared; command/complete/reject messages of every kind with consistent and inconsistent header/body types; SetPlmnDigit on a grid (thorough: all 900 x 990 MCC/MNC pairs) against an independent TS 24.008 encoder and nasConvert.PlmnIDToNas; non-trivial = decoded successfully with more than 4 octets / encoded with at least one part; distinct by octets",
    trusted_base=TB_COMMON + ["hand-written Gallina model of uePolicyContainer (C18/Model.v); models of encoding/binary.Read/Write on fixed-size values and byte slices (EOF vs unexpected EOF), bytes.Buffer.Next, uint8/uint16 wrap-around; tied to the code by the correspondence run only"],
    assumptions=["round trip: every length fits its 16-bit field, PLMN octets hold decimal digits (what SetPlmnDigit produces for MCC 99..999, MNC 9..999), IE-level Len = len(Buffer) (set by the caller, as for every nasType element)",
                 "Go nil and empty slices are identified"],
    exhaustive=False,
    explanation="Theorems C18_total_*: every decoder returns a value or an error on every octet string; C18_roundtrip_*: decode(encode x) = x with Len fields recomputed, MCC/MNC re-derived from the octets and Cause = 0x6f; C18_plmn_refuted / C18_plmn_partial: SetPlmnDigit agrees with TS 24.008 exactly on palindromic MCC and MNC digit strings (known finding F17); C18_setplmn_validation / C18_part_len_recomputed: full statements for the repaired F23 / F24.")
