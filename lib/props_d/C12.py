# reg and TB_COMMON are injected by lib/props.py
reg(id="C12",
    gen=["globals"],
    model_targets=["C12/Corr.vo"],
    proof_targets=["Props/C12.vo"],
    props_file="Props/C12.v",
    mismatch_is_failure=True,
    level="proof",
    rule="calls of nasConvert {Suci,Nai,Guti,Pei}ToString[WithError], GutiToNas[WithError], PlmnIDToNas/ToString, AmfIdToNas[WithError]/ToModels, "
         "the 15 nasType.MobileIdentity5GS text getters, GUTI5G/TMSI5GS AMFSetID/AMFPointer accessors and TMSI5GS.Get5GSTMSI, plus the modelled stdlib calls; "
         "streams: corpus (witnesses of F1/F2/F3/F9, the repository's test vectors), directed (all 1.1M MCC x MNC of both widths on the implementation, "
         "AMF ids stratified over the 8/10/6 split + every single bit, TMSI boundaries, routing indicators of every length and filler pattern, MSIN lengths 1-12, "
         "schemes 0-15, IMEI/IMEISV of 1-20 digits, every truncation point of each identity, text of every length 0-24 and junk at every position), "
         "small_buffers (every Buffer of length <= 2 on the implementation for all 23 byte-input functions; cases: length <= 1 + sampled 2 and 3), "
         "random_valid, malformed (mutated text incl. multi-byte UTF-8, signs, upper case; structured random Buffers), stdlib (micro-correspondence of the Go stdlib models); "
         "non-trivial = call that returns a value (not error/panic), distinct by function+input; Go nil and empty slices/strings are identified; "
         "thorough adds all 2^24 AMF ids and all 3-octet Buffers on the implementation",
    trusted_base=[t for t in TB_COMMON if not t.startswith("tools/go2coq")] + [
        "hand-written Gallina model coq/C12/Model.v of nasConvert/{MobileIdentity5GS,PlmnId,AmfId}.go and the nasType getters/accessors (tied to the compiled code only by the correspondence run)",
        "coq/C12/GoStd.v models of hex.EncodeToString/DecodeString, strconv.Atoi/ParseInt/FormatUint, fmt.Sprintf %x %d %02d, strings.Split/Join/Index/HasPrefix, bits.RotateLeft8, binary.BigEndian.* (modelled, not verified; exercised by the stdlib stream)",
        "coq/C12/Spec.v: hand transcription of TS 24.501 Figures 9.11.3.4.1-5, TS 24.008 10.5.1.3, TS 23.003 2.10.1; text forms are free5gc / TS 29.571 / TS 29.503 conventions",
        "independent Go encoders in harness/cmd/c12 (direct oracle)"],
    assumptions=["Go strings and byte slices are lists of octets (< 256); slices passed to the getters have len = cap (as SetLen's make produces)",
                 "PlmnIDToNas / PlmnIDToString have no error result: theorems carry their documented domain (3-digit MCC, 2/3-digit MNC; 3 octets)",
                 "finding F9 (not fixed): the nasType.MobileIdentity5GS text getters panic on short Buffers; proven total from a per-getter minimal length, refuted below it"],
    exhaustive=True,
    explanation="Theorems (all inputs): model = specification parser/printer for PLMN, AMF id (all 2^24 by arithmetic), 5G-GUTI text<->wire with both round trips, "
                "SUCI (IMSI null/non-null scheme, NAI), 5G-S-TMSI, IMEI/IMEISV wire->text; every string that is not accepted text is an error; accessors agree with AmfIdToNasWithError; "
                "nasConvert helpers never panic; nasType getters total from a minimal Buffer length (F9 refuted below). Correspondence replays implementation results on the model; "
                "model = spec is proven, so a mismatch is a failing input.")
