# reg and TB_COMMON are injected by lib/props.py
reg(id="C15",
    gen=["globals"],
    model_targets=["C15/Corr.vo"],
    proof_targets=["Props/C15.vo"],
    props_file="Props/C15.v",
    mismatch_is_failure=True,
    level="proof",
    rule="calls of nasType.QoSRules / QoSFlowDescs Marshal- and UnmarshalBinary. Streams: corpus (witnesses of F10, F11, the delete-rule finding, EOF quirks); directed (every component type and parameter kind with boundary values, operation codes 0-8/255 x 0/1/15/16/17 filters x DQR x segregation, 0/1/2/62-65/255-257 parameters, filter contents of 255/256/261 octets, 3858-octet rule, ill-formed values: flow label 2^20, 16-octet IPv4 forms, short/long MAC); all 256 component / parameter identifiers in the first and second element (unknown => error required); every implemented component type with 0..Length+1 value octets and every parameter kind with 0..4 content octets; all 256 values of each header octet; every length field (rule, filter, parameter) set to 0, 1, actual-1, actual+1, 255, 256, 65535; truncation at every octet of valid encodings; structured random values; mutated valid encodings and random octets (one SplitMix64 stream). Go nil and empty slices are identified (values are compared through their Coq rendering). Non-trivial = well-formed non-empty value (Marshal) or successful parse of >= 1 element (Unmarshal); distinct by value / octets.",
    trusted_base=TB_COMMON + [
        "hand-written model coq/C15/Model.v of nasType/qos_rule.go and qos_flow_desc.go (exercised by the correspondence run on every call the harness makes)",
        "modelled stdlib: bytes.Buffer (Next, Read via binary.Read, Write), encoding/binary Read/Write of 1/2-octet values and byte slices, binary.BigEndian.{Uint16,Uint32,PutUint16,PutUint32}; io.EOF vs io.ErrUnexpectedEOF as returned by io.ReadFull",
        "coq/C15/Spec.v: transcription of TS 24.501 9.11.4.12 / 9.11.4.13 (figures and tables) by hand; the harness carries a second, independent transcription in Go (specRules/specDescs)",
    ],
    assumptions=[
        "values are Go values of the modelled types: no nil component/parameter inside a list (component.Type() on a nil interface panics in MarshalBinary), field values within their Go integer types",
        "well-formedness (end of coq/C15/Spec.v): <= 15 filters, identifiers < 16, direction < 16, QFI < 64, operation < 8, filter contents <= 255 octets, flow label < 2^20, IPv4 address and mask of exactly 4 octets (net.IP.To4 form), MAC of 6 octets, delete-type filters carry only an identifier; <= 63 parameters",
    ],
    exhaustive=False,
    explanation="Theorems over all inputs: parsers total with fuel length+1 (C15_rules_total, C15_descs_total); unknown component / parameter identifiers give Err in any well-formed context (C15_unknown_*_err, C15_known_*_ids); Unmarshal(Marshal x) = x for all well-formed rule and description lists (C15_*_roundtrip, per-constructor C15_comp_roundtrip / C15_param_roundtrip over all 18 + 7 constructors); Marshal x = TS layout (C15_descs_format, C15_rules_format_partial; C15_rules_format_refuted for 'delete existing QoS rule', whose exact layout is C15_rules_format_code). Correspondence replays every harness call on the model; the direct oracle checks no-panic, unknown-id => error, round trip and TS format on the Go implementation.")
