# reg and TB_COMMON are injected by lib/props.py
reg(id="C13",
    gen=["globals"],
    model_targets=["C13/Corr.vo"],
    proof_targets=["Props/C13.vo"],
    props_file="Props/C13.v",
    mismatch_is_failure=True,
    level="proof",
    rule="calls of nasConvert.{SnssaiToNas,RejectedSnssaiToNas,SnssaiToModels,RequestedNssaiToModels,RejectedNssaiToNas,PlmnIDToNas,"
         "TaiListToNas,PartialServiceAreaListToNas,LadnToNas,LadnToModels,UESecurityCapabilityToByteArray,UpuInfoToNas,UpuAckToModels} and "
         "nasType.DNN.{GetDNN,SetDNN}. Streams: corpus (witnesses of F5-F8, F15, repo test vectors, non-canonical text); every SST 0..255 x "
         "{no SD, 000000, ffffff, FFFFFF, 000001, 800000, random lower/upper, mixed case}; NSSAI lists of 0..9 entries over the five S-NSSAI shapes "
         "(spec-encoded) and 1..8 library-encoded; malformed NSSAI = every length octet 0..255 at every entry position of 4 base lists x every "
         "truncation point; rejected NSSAI with 0..8 entries split PLMN/TA (+51/52/60 entries); TAI lists: every assignment of 3 PLMNs for n<=4, "
         "10 grouping patterns for n=5..16, shared/distinct pointers, out-of-domain 0/17/32/33/64/256/257 entries, nil PlmnId, malformed TAC/MCC/MNC text; "
         "service-area lists of 1..16 TACs in 8 splits over 1..4 areas x allowed/not-allowed (+0, 17, 32, 33, 256, 257 TACs, unknown type); LADN DNN lengths "
         "0,1,2,62,63,64,100,101,254,255 (+256, 300) x 1..16 TAIs, LADN indications (lists, every truncation, every length octet); DNN label texts at the 62/63 "
         "and 100/101 limits; UPU info/ack; raw octet strings for each byte-input helper: length <=1 exhaustive, length 2 all first octets x 4 second octets "
         "(thorough: exhaustive length <=3 on the implementation), random structured longer ones. A case is oracle-only when it is run on the implementation "
         "and checked by the independent Go decoders but not printed for the model. Non-trivial = non-error result; distinct by call and arguments. "
         "Go nil and empty slices/strings are identified.",
    trusted_base=TB_COMMON + ["hand-written Gallina model coq/C13/Model.v (follows the Go text function by function) and coq/C13/GoStd.v "
                              "(hex.EncodeToString/DecodeString incl. partial result on error, strconv.Atoi of a one-octet string, strings.Split on '.', "
                              "bytes.Buffer ReadByte/Next, uint8 conversions), tied to the implementation by the correspondence run",
                              "coq/C13/Spec.v: transcription of TS 24.501 9.11.2.8, 9.11.3.9, 9.11.3.29, 9.11.3.30, 9.11.3.37, 9.11.3.46, 9.11.3.49 and TS 24.008 10.5.1.3 "
                              "as readers; the same layouts are re-implemented independently in Go in harness/cmd/c13/oracle.go"],
    assumptions=["text fields are well formed where the property says so: Sst 0..255, Sd '' or six hex digits, Mcc 'ddd', Mnc 'dd'/'ddd', Tac six hex digits, "
                 "PlmnId non-nil; other inputs are modelled (non-hex text is skipped with a log line, short MCC/MNC and empty TAI lists panic) and exercised "
                 "by the correspondence run only",
                 "list sizes as in the standard: 1..16 TAIs / TACs (17+ is encoded with a count field a receiver reads as 16), rejected NSSAI up to 51 entries, DNN up to 255 octets",
                 "RequestedNssaiToModels is given Len <= len(Buffer) (the NAS decoder makes them equal); Len > len(Buffer) panics (Example C13_RequestedNssaiToModels_len_beyond_buffer)",
                 "LadnToNas / LadnToModels carry the DNN as raw octets (no label coding); the theorems are about the length-prefixed layout only"],
    exhaustive=False,
    explanation="Theorems: SnssaiToNas/RejectedSnssaiToNas/RejectedNssaiToNas/TaiListToNas/PartialServiceAreaListToNas/LadnToNas outputs are read back by "
                "independent readers of the standard for all well-formed inputs; RequestedNssaiToModels and LadnToModels equal the standard's reader on EVERY "
                "octet string (so round trips and Err on malformed lengths follow); totality of every UE-fed helper of these files. The correspondence run "
                "ties the model to the compiled Go code; the Go-side oracle applies independent decoders to the library's encodings.")
