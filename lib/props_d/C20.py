# reg and TB_COMMON are injected by lib/props.py
reg(id="C20",
    gen=["globals"],
    model_targets=["C20/Corr.vo"],
    proof_targets=["Props/C20.vo"],
    props_file="Props/C20.v",
    mismatch_is_failure=False,
    level="proof",
    rule="operation histories (Allocate / Allocate_inRange(a,b) / FreeID(x)) on a fresh NewGenerator(min,max), observed through the exported API only; streams: corpus (F18 witness, int64-boundary allocators), every history up to depth 4-5 (thorough: 6) over 12-15 operations on widths 1..4 (replayed one by one on the implementation with the shadow-set oracle, compared with the model through a pre-order digest of the whole tree, depth <= 2 also as individual cases), random long histories with exhaustion bursts, frees and wrap-around from one SplitMix64 stream (widths 1..52, min at 0 / negative / MinInt64 / MaxInt64-width+1 / random), degenerate allocators (max < min, width not an int64: correspondence only); every history is followed by a drain (Allocate until failure) so that freed identifiers must come back; non-trivial = an allocation after a free, distinct by history; failures are shrunk (remove operations, then arguments)",
    trusted_base=TB_COMMON + ["hand-written Gallina model of UPSC_Generator.go (C20/Model.v): int64 arithmetic as Z with explicit wrap-around, Go % as Z.rem with divide-by-zero panic, map[int64]bool as duplicate-free key list; tied to the code by the correspondence run only"],
    assumptions=["min <= max, both int64, and max - min + 1 < 2^63 (bounds_ok); theorem C20_range_hypothesis_needed shows the last condition cannot be dropped",
                 "one allocator used sequentially (the mutex in the Go source is commented out; concurrency is property C19)"],
    exhaustive=False,
    explanation="Theorems C20_inv_step/C20_histories: for every operation list and all argument values the model neither panics nor hangs and its results are a run of the abstract allocator 'set of live identifiers' (ids within bounds, fresh, Allocate fails iff all live, FreeID removes exactly one id); C20_free_realloc: a freed identifier is returned again by < valueRange further Allocates or at once by Allocate_inRange(id - min, _).")
