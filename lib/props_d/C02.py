# reg, TB_COMMON and CODEC_TB are injected by lib/props.py
reg(id="C02",
    gen=["msgs", "accessors", "globals"],
    harness_cmd="c01",
    model_targets=["Codec/Corr.vo"],
    proof_targets=["Props/C02.vo"],
    props_file="Props/C02.v",
    mismatch_is_failure=False,
    level="proof",
    rule="generated well-formed message values for all 45 messages: random subsets of optional elements (incl. all present / earlier absent, later present), legal lengths incl. min/max boundaries, random octets; encode, decode, compare slot for slot on the implementation (nil and empty slices identified); plus ill-formed values (Len != content, Len > capacity) for the result class; encode_def/decode_def replayed on every case; non-trivial = well-formed value; distinct by value",
    trusted_base=CODEC_TB,
    assumptions=["equality is on Iei, Len and contents of every slot; Go nil and empty slices are identified",
                 "mandatory elements have Iei = 0 and array-backed contents are zero beyond the transmitted part (those fields/octets are not transmitted)"],
    explanation="Theorem C02_roundtrip: for every definition satisfying rt_defb (kernel-checked for the 45 translated ones) and every well-formed message value, encode succeeds and decode(encode m) = m; proved by induction over the mandatory sequence and over the suffix of the optional list (any subset, any legal lengths, any contents).")
