# reg and TB_COMMON are injected by lib/props.py
reg(id="CZUC",
    model_targets=["CZUC/Corr.vo"],
    proof_targets=["Props/CZUC.vo"],
    props_file="Props/CZUC.v",
    mismatch_is_failure=True,
    level="proof",
    rule="calls of zuc.Zuc, security.NEA3, security.NIA3, security.NASEncrypt(3,..) and security.NASMacCalculate(3,..): "
         "corpus = published vectors (ZUC sets 1-4, EEA3 set 1, EIA3 sets 1-2); directed = every bearer 0..31 x both directions "
         "through all four entry points, every bit length 32w+m (w 0..5, m 0..31) with trailing octets and zero / one / random pad bits, "
         "+-1 bit around 32*{8,16,33,64}, 0..9 octets through the byte-length API x {all-zero, all-one, single-bit, random} keys x "
         "counts {0,1,2^31,2^32-1,random}, every single-bit key and iv, keystream lengths 0..40 and 300 words, bearer>31 / direction>1 "
         "(error), nil payload; structured random (one SplitMix64 stream); malformed = bit length beyond the buffer (panic), "
         "out-of-range bearer/direction on NEA3/NIA3 (uint8 wrap), short key/iv slices (panic). non-trivial = well-formed call with "
         "a non-empty payload / keystream, distinct by the full argument tuple. Go nil and empty slices are identified ([]). "
         "Direct oracle: an independent reference (ZUC with uint64 arithmetic mod 2^31-1, bitwise EEA3 / EIA3) plus involution, "
         "prefix, keystream independence, length, MAC length 4, no mutation of key/message, no panic.",
    trusted_base=TB_COMMON + [
        "hand-written model CZUC/Model.v of security/zuc/zuc.go and NEA3/NIA3/genMac/getWord (tied to the Go code by the correspondence run only)",
        "transcription of ZUC v1.6 / 128-EEA3 / 128-EIA3 (v1.7+) in CZUC/Spec.v, including the S-box tables and the constants D (validated by the published test sets in CZUC/Proofs_Vectors.v)",
        "encoding/binary.BigEndian.PutUint32 modelled as four shifted octets",
    ],
    assumptions=["keys are [16]byte (16 octets < 256); count is a uint32",
                 "bit length <= 8 * len(buffer) (beyond that the Go code panics with index out of range, and so does the model)",
                 "bit length + 31 < 2^32 (uint32 wrap of (length+31)/32; for the byte-length API: payload shorter than 512 MiB - see CZUC_enc_wrap_observation)",
                 "equality with the standard is claimed for bearer < 32 and direction < 2; totality for every bearer / direction",
                 "a nil payload (error in Go) is not distinguished from the empty payload in the model; the harness checks the nil case on the implementation only"],
    explanation="Theorems: the model of zuc.Zuc equals the ZUC v1.6 keystream with the LFSR computed mod 2^31-1 (invariant: every cell in 1..2^31-1); "
                "NEA3 = 128-EEA3 on the first `length` bits with zero tail for every bit length; NIA3 = 128-EIA3 for every bit length; "
                "NASEncrypt/NASMacCalculate with algorithm 3 = the same with length 8*len; length, involution, prefix, keystream independence, "
                "totality (incl. getWord's stream[loc+1]), MAC length 4. The correspondence run replays every observed Go call on the model.")
