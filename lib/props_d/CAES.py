# reg and TB_COMMON are injected by lib/props.py
reg(id="CAES",
    model_targets=["CAES/Corr.vo"],
    proof_targets=["Props/CAES.vo"],
    props_file="Props/CAES.v",
    mismatch_is_failure=True,
    level="proof",
    rule="AES part of C06/C07/C08. Streams: corpus (TS 33.401 / FIPS-197 / SP 800-38A / RFC 4493 vectors, empty + nil payload through algorithms 0..5 = F4 witness); "
         "directed (NEA2/NIA2: every bearer 0..31 x direction 0..1, lengths 0..49, boundary counts, zero/one/single-bit keys, uint8-wrapping bearer/direction on direct calls; "
         "crypto/aes, cipher.NewCTR with counter carries through 1..16 octets and lengths around 16 and 512, cmac.Sum on 0..4 blocks +-1 octet; "
         "NASEncrypt/NASMacCalculate on {0,1,2,3,4,31,32,255}^3 for (alg, bearer, direction) x 3 payload lengths + nil); random valid (all algorithms 0..3); random grid (any alg/bearer/direction, nil payloads). "
         "Go nil = None, non-nil (also empty) = Some; returned slices compared by content. For algorithms 1 and 3 the model side compares only the result class (value laws are checked on the Go side; values belong to the SNOW 3G / ZUC parts). "
         "non-trivial = valid parameters, algorithm != 0 (and non-empty payload for ciphering), distinct by full input. thorough adds the full 256^3 (alg, bearer, direction) grid on the implementation with the direct oracle.",
    trusted_base=TB_COMMON + [
        "hand-written Gallina model of security.go NEA2/NIA2/NASEncrypt/NASMacCalculate (CAES/Model.v), tied by the correspondence run",
        "crypto/aes = FIPS-197 AES-128, crypto/cipher.NewCTR and github.com/aead/cmac.Sum modelled from their behaviour (validated against the Coq definitions on directed + random inputs every run, not verified)",
        "hand transcription of FIPS-197, SP 800-38A CTR, RFC 4493 and TS 33.401 B.1.3/B.2.3 (CAES/Spec.v), validated by the published vectors (Examples)",
        "independent Go reference AES/EEA2/EIA2 inside the harness (expected values of the direct oracle)"],
    assumptions=["keys are 16 octets (Go type [16]byte); COUNT < 2^32; payload lengths fit Go's int (< 2^63) for the equality with 128-EEA2 (64-bit counter field)",
                 "NEA1/NEA3/NIA1/NIA3 enter the wrapper theorems as Section hypotheses (stream_iface / mac_iface on a downward-closed length domain dom inside 8*len < 2^32); they are discharged from the SNOW 3G and ZUC parts in coq/C08/Glue.v with dom n := 8*n < 2^32 - 31 (Props/C06.v, C07.v, C08.v)"],
    exhaustive=True,
    explanation="Theorems (for every block cipher E with 16-octet blocks, instantiated with FIPS-197 AES): NEA2 = 128-EEA2, NIA2 = 128-EIA2 (4 octets), CTR laws (length, involution, prefix, keystream independence), NASEncrypt/NASMacCalculate dispatch, validation, NULL algorithm, lifted laws, MAC length, totality. Correspondence replays implementation behaviour on the model; direct oracle checks the laws and the expected values on the implementation.")
