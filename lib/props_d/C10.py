# reg, TB_COMMON and CODEC_TB are injected by lib/props.py
reg(id="C10",
    gen=["msgs", "accessors", "globals"],
    harness_cmd="c01",
    model_targets=["Codec/Corr.vo"],
    proof_targets=["Props/C10.vo"],
    props_file="Props/C10.v",
    mismatch_is_failure=False,
    level="proof",
    rule="for every accepted input of the decode streams on the implementation: input bytes compared before/after decoding; every input octet flipped after decoding and the message compared with its value before; every Buffer octet of the decoded message flipped and the input compared; decoding twice compared; encoding into a buffer pre-filled with a random prefix compared with prefix ++ encoding; message compared before/after encoding; non-trivial = accepted input; distinct by input",
    trusted_base=CODEC_TB + ["memory-level facts (no sharing through unsafe or the runtime) are outside any functional model: they are tested on the implementation, not proved"],
    assumptions=["PARTIAL at the memory level: the theorems show that the decoders are canonical programs whose language has no aliasing / input-writing form, that every filled Buffer was allocated by SetLen in the same step and that SetLen allocates; that binary.Read copies (Go standard library) is assumed"],
    explanation="Theorems on the fresh translation: all decoders canonical (no alias-capable statement), every Buffer read preceded by the allocating SetLen, SetLen of those types replaces Buffer by fresh zero octets (C09 accessor semantics), encode appends, codec packages import no source of non-determinism. Go-side: input-unchanged / no-alias / determinism / append-only checks on every accepted input.")
