# reg, TB_COMMON and CODEC_TB are injected by lib/props.py
reg(id="C14",
    parts=["C12", "C13", "C16", "C17"],
    harness=False,
    failure_classes=["panic", "hang"],
    skip_correspondence=True,
    proof_targets=["Props/C14.vo"],
    props_file="Props/C14.v",
    level="proof",
    rule="the byte-input and text-input streams of the C12, C13, C16 and C17 harnesses (every helper: all inputs of length 0..1 exhaustively and sampled 2 at quick, exhaustive up to 3 octets at thorough, structured longer inputs, malformed text); oracle: the helper returns (no panic; hang = no return within the timeout); only failures of class panic/hang count for this property; the value-level correspondence of those models is checked by C12/C13/C16/C17 themselves; non-trivial/distinct as counted by those harnesses",
    trusted_base=TB_COMMON + ["hand-written Gallina models of the helpers (coq/C12, C13, C16, C17 Model.v) with every index/slice as an explicit Panic outcome, tied to the Go code by the correspondence runs of those properties"],
    assumptions=["known finding F9: the 15 nasType.MobileIdentity5GS text getters panic on Buffers shorter than a getter-specific minimal length (theorems C14_C12_total_*_partial carry that length; *_refuted exhibit the panics)",
                 "fuel >= length + 1 is the termination measure of the looping helpers (stated in the theorems)"],
    explanation="37 totality theorems (every byte string / every text): the models of the helpers that take UE-supplied contents return a value or an error, never Panic/OutOfFuel; restated from C12/C13/C16/C17; the Go-side oracle runs every helper on exhaustive short and generated longer inputs under recover() and a timeout.")
