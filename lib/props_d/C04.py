# reg, TB_COMMON and CODEC_TB are injected by lib/props.py
reg(id="C04",
    gen=["msgs", "accessors", "globals"],
    harness_cmd="c01",
    model_targets=["Codec/Corr.vo"],
    proof_targets=["Props/C04.vo"],
    props_file="Props/C04.v",
    mismatch_is_failure=True,
    level="proof",
    rule="all decode streams of C01 (45 messages x every slot x boundary lengths x truncation points, element sequences built from known identifiers in any order with duplicates and unknown octets, malformed) and the generated well-formed messages: the encoder output is compared with a table-driven formatter written in the harness, the decoder verdict/values are replayed on decode_def (proved equal to the table-driven spec_decode); non-trivial = input passing the header / well-formed value; distinct by input",
    trusted_base=CODEC_TB + ["coq/Spec/TS24501Tables.v: the pinned element tables (357 slots) transcribed once and cross-checked against the repository's Min*/Max* vectors"],
    assumptions=["the specification tables are pinned in coq/Spec/TS24501Tables.v; a change of an identifier, a format or a length bound in the code breaks C04_tables_eq"],
    explanation="Theorems: the specification view of the freshly extracted definitions equals the pinned TS 24.501 tables; all 90 functions are canonical; encode = table-driven format (mandatory V/LV/LV-E in order, optional T/TV/TLV/TLV-E in order); for every byte string the generated decoder agrees with the independent table-driven decoder (accept/reject and the values of every slot).")
