# reg and TB_COMMON are injected by lib/props.py
reg(id="C11",
    gen=["counter", "globals"],
    model_targets=["C11/Corr.vo"],
    proof_targets=["Props/C11.vo"],
    props_file="Props/C11.v",
    mismatch_is_failure=True,
    level="proof",
    rule="histories of Set/SetSQN/SetOverflow/AddOne/Get/SQN/Overflow from reachable states (directed boundary states + random from one SplitMix64 stream); non-trivial = contains AddOne; distinct by operation list; thorough adds all 2^24 states x {reads, AddOne} on the implementation",
    trusted_base=TB_COMMON + ["BV interpreter semantics of Go uint8/16/32 arithmetic (Lib/BV.v), exercised by the correspondence run"],
    assumptions=["security/counter.go is re-translated on every run (Gen/GenCounter.v); theorems are about the BV interpreter applied to those bodies",
                 "operation arguments are within their Go parameter types (uint16 overflow, uint8 sqn)"],
    exhaustive=True,
    explanation="Theorems C11_step/C11_histories: every operation sequence from every state < 2^24 refines the abstract (overflow, sqn) counter; proven over the method bodies translated from the current counter.go; correspondence replays implementation histories on the model.")
