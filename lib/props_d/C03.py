# reg, TB_COMMON and CODEC_TB are injected by lib/props.py
reg(id="C03",
    gen=["msgs", "accessors", "globals"],
    harness_cmd="c01",
    model_targets=["Codec/Corr.vo"],
    proof_targets=["Props/C03.vo"],
    props_file="Props/C03.v",
    mismatch_is_failure=False,
    level="proof",
    rule="every accepted input of the decode streams (corpus, directed boundary lengths, structured random element sequences with reordered/duplicated/unknown identifiers, malformed random) is re-encoded, decoded again and encoded again on the implementation: message equal, bytes identical; the canonical encodings of generated well-formed messages must be reproduced byte for byte; all cases replayed on decode_def/encode_def; non-trivial = accepted input; distinct by input",
    trusted_base=CODEC_TB,
    assumptions=["equality is on Iei, Len and contents of every slot; Go nil and empty slices are identified"],
    explanation="Theorems: every message value the decoder accepts is well-formed (decode_wf, all byte strings), hence by C02 re-encoding succeeds, re-decoding gives the same value and a further encoding the same bytes (fixed point); canonical encodings are reproduced byte for byte.")
