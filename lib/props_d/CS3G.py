# reg and TB_COMMON are injected by lib/props.py
reg(id="CS3G",
    model_targets=["CS3G/Corr.vo"],
    proof_targets=["Props/CS3G.vo"],
    props_file="Props/CS3G.v",
    mismatch_is_failure=True,
    level="proof",
    rule="placeholder",
    trusted_base=TB_COMMON,
    assumptions=[],
    explanation="placeholder")
