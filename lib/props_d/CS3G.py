# reg and TB_COMMON are injected by lib/props.py
reg(id="CS3G",
    model_targets=["CS3G/Corr.vo"],
    proof_targets=["Props/CS3G.vo"],
    props_file="Props/CS3G.v",
    mismatch_is_failure=True,
    level="proof",
    rule="calls of snow3g.GetKeyStream, security.NEA1, security.NIA1 and NASEncrypt / NASMacCalculate with AlgoID 1, replayed on the model: "
         "published known answers + F4 witness (empty message); every bearer 0..31 x direction 0..1 for NEA1 and NIA1; every NEA1 bit length "
         "32w+m (w = 0..5, m = 0..31, some with input longer than the bit length); payloads of 0..40 octets through the in-place API; every NIA1 "
         "bit length 0..130 and 64k-1, 64k, 64k+1 (pad bits zero); counts {0, 1, 2^31, 2^32-1, random}; keys all-zero, all-one, single-bit, random; "
         "structured random; an out-of-domain stream (bit length beyond the input, bearer/direction beyond 5/1 bits, garbage pad bits) where only "
         "model = implementation is compared. non-trivial = in-domain call with a non-empty input, distinct by full argument tuple. "
         "Go nil and empty slices are both [] in the model; nil payload/message (an API error) is checked on the Go side only.",
    trusted_base=TB_COMMON + [
        "hand-written model coq/CS3G/Model.v of snow3g.go and NEA1/NIA1 (tied to the implementation by the correspondence run; the sr/sq tables are exercised through the keystream)",
        "modelled stdlib calls: binary.BigEndian.Uint32/Uint64/PutUint32, make, copy",
        "specification transcription coq/CS3G/Spec.v (validated in Coq by the published SNOW 3G / 128-EEA1 / 128-EIA1 test sets and by the algebraic definitions of both S-boxes)",
    ],
    assumptions=[
        "8*len(payload) < 2^32 - 31 for NEA1 (uint32 bit length; at exactly 2^29 octets the API zeroes the payload: CS3G_api_length_wrap_observation)",
        "len(msg) < 2^60 for NIA1 (uint64 bit length)",
        "an N-bit message is ceil(N/8) octets whose bits beyond N are zero (NIA1 does not mask them: CS3G_nia1_padbits_observation)",
        "keys are 16 octets, COUNT < 2^32, BEARER < 32, DIRECTION < 2 (the API wrappers are total for every bearer/direction octet)",
    ],
    explanation="Theorems CS3G_keystream_eq_spec / CS3G_nea1_eq_uea2 / CS3G_nia1_eq_uia2: the model of GetKeyStream, NEA1 (first `length` bits, every bit length) "
                "and NIA1 (every bit length incl. 0) equals the ETSI/SAGE SNOW 3G / UEA2 / UIA2 specification under the TS 33.401 B / TS 33.501 D mapping; "
                "CS3G_nea1_length/_involution/_prefix/_keystream_indep, CS3G_total, CS3G_mac_len4: the C08 laws for algorithm identity 1. "
                "The correspondence run replays every implementation call on the model, so a disagreement is an input on which the implementation "
                "differs from the standard; the Go-side oracle checks known answers and the laws directly.")
