# reg and TB_COMMON are injected by lib/props.py
# composite of the three algorithm parts; the Coq assembly is coq/C08/Glue.v + coq/Props/C07.v
reg(id="C07",
    gen=["globals"],
    parts=["CS3G", "CZUC", "CAES"],
    harness=False,
    model_targets=[],
    proof_targets=["Props/C07.vo"],
    props_file="Props/C07.v",
    mismatch_is_failure=True,
    level="proof",
    rule="composite of the parts CS3G (SNOW 3G: GetKeyStream, NEA1, NIA1, AlgoID 1 through the API), CZUC (ZUC: Zuc, NEA3, NIA3, AlgoID 3 through the API) and CAES (NEA2, NIA2, crypto/aes, cipher.NewCTR, cmac.Sum, NASEncrypt / NASMacCalculate on the (alg, bearer, direction) grid {0,1,2,3,4,31,32,255}^3 x 3 payload lengths + nil, full 256^3 grid on the implementation at the thorough tier); each part: published vectors + witnesses of fixed defects (F4), every bearer 0..31 x direction 0..1, every bit-length residue mod 32 (NEA1, NEA3, NIA1, NIA3) / every octet length 0..49 (NEA2, NIA2), boundary counts and keys, structured random, malformed; see the rule texts of CS3G, CZUC, CAES. Direct oracles on the Go side: expected values from independent reference implementations; involution, prefix stability, length, keystream independence, NULL algorithm, validation leaves the payload untouched, MAC length, key / message unchanged, nil and empty payloads, no panic.",
    trusted_base=TB_COMMON + [
        "hand-written Gallina models: coq/CS3G/Model.v (snow3g.go, NEA1, NIA1), coq/CZUC/Model.v (zuc.go, NEA3, NIA3, genMac, getWord), coq/CAES/Model.v (NEA2, NIA2, NASEncrypt, NASMacCalculate), each tied to the compiled code by its part's correspondence run; coq/C08/Glue.v instantiates the wrapper model with the three algorithm models",
        "crypto/aes = FIPS-197 AES-128, crypto/cipher.NewCTR and github.com/aead/cmac.Sum modelled from their behaviour (validated against the Coq definitions on directed + random inputs every run, not verified); modelled stdlib calls binary.BigEndian.*, make, copy",
        "hand transcriptions of the standards, validated in Coq by the published test sets: coq/CS3G/Spec.v (ETSI/SAGE SNOW 3G, UEA2/UIA2 = 128-EEA1/EIA1, both S-boxes also against their algebraic definitions), coq/CAES/Spec.v (FIPS-197 incl. S-box = inverse + affine map, SP 800-38A CTR, RFC 4493 CMAC, TS 33.401 B.1.3/B.2.3 = 128-EEA2/EIA2), coq/CZUC/Spec.v (ZUC v1.6, 128-EEA3/EIA3)",
        "independent Go reference implementations inside the three harnesses (expected values of the direct oracles)"],
    assumptions=[
        "keys are 16 octets (Go [16]byte), COUNT < 2^32 (uint32); equality with the standards is claimed for BEARER < 32 and DIRECTION < 2; the wrappers are proven total (and to return an error) for every other bearer / direction / algorithm identity",
        "payload / message length: 8*len < 2^32 - 31 through the byte-length API (uint32 bit length and (length+31)/32 inside NEA1/NEA3/NIA3 must not wrap; at exactly 2^29 octets algorithms 1 and 3 overwrite the payload with zeros: CS3G_api_length_wrap_observation, CZUC_enc_wrap_observation, encrypt_bitlength_wraps); per-algorithm functions: bit length <= 8*len(buffer), bit length + 31 < 2^32 (NEA1, NEA3, NIA3), len < 2^60 (NIA1), len < 2^63 (NEA2)",
        "an N-bit message is ceil(N/8) octets; for NIA1 the bits beyond N must be zero (NIA1 does not mask them: CS3G_nia1_padbits_observation); NEA2 / NIA2 are octet-granular in this library",
        "a nil payload is None in the wrapper model (CAES/Model.v); the SNOW 3G / ZUC part models identify nil and empty and their harnesses check nil on the implementation only"],
    exhaustive=True,
    explanation="Theorems C07_nia1_eq_eia1 / C07_nia2_eq_eia2 / C07_nia3_eq_eia3: the models of NIA1 (every bit length incl. 0, pad bits zero), NIA2 (every octet length incl. 0; cmac.Sum as modelled = RFC 4493 for every block cipher) and NIA3 (every bit length) return the 4 octets of 128-EIA1 (UIA2), 128-EIA2 (AES-CMAC over COUNT|BEARER|DIRECTION|0^26|msg) and 128-EIA3; C07_nasmac_eq_standard: the concrete NASMacCalculate with algorithm identity 1/2/3 returns the standard's MAC of all 8*len bits. Correspondence runs of the three parts replay every implementation call on the proven models.")
