"""Per-property configuration of the checks (see DESIGN.md section 5)."""

TB_COMMON = [
    "Coq 8.16.1 kernel + vm_compute (no native_compute); coqchk in the thorough tier",
    "tools/go2coq (syntax transliteration only; refuses unknown syntax as EUnknown/SUnknown which evaluate to Panic)",
    "Go harness + driver (generators, direct oracle on the implementation, case printing, diff)",
    "Go compiler/runtime",
]

CODEC_TB = TB_COMMON + [
    "Codec/Sem.v: the reading of the generator template (binary.Read/Write on bytes.Buffer, SetLen allocation, NewX, Octet[:Len] slicing) as decode_def/encode_def; validated on every run by ~10^4 decode/encode/dispatch cases replayed on the Coq functions",
    "canon_ok: the Go functions equal canon_dec/canon_enc of the extracted definition (kernel-evaluated) -- a harmless rewrite of a generated function breaks it",
    "pinned Spec/*.v tables (message types, element tables) transcribed from TS 24.501"]

PROPS = {}


def reg(**kw):
    PROPS[kw["id"]] = kw



def load_all():
    import glob, os, importlib.util
    d = os.path.join(os.path.dirname(os.path.abspath(__file__)), "props_d")
    for f in sorted(glob.glob(os.path.join(d, "C*.py"))):
        spec = importlib.util.spec_from_file_location("props_" + os.path.basename(f)[:-3], f)
        m = importlib.util.module_from_spec(spec)
        m.reg, m.TB_COMMON, m.CODEC_TB = reg, TB_COMMON, CODEC_TB
        spec.loader.exec_module(m)
