#!/usr/bin/env python3
"""Driver shared by every property check (see DESIGN.md section 6).

bin/check <ID> [--tier quick|thorough] [--replay FILE]

  1. (under a lock) build translator + harness from /repo's working tree,
     regenerate coq/Gen/*.v, make the property's Coq closure (full .vo)
  2. run the Go harness: inputs, direct property oracle on the implementation,
     observed behaviour as Coq case files
  3. replay the case files on the Coq model (coqc, vm_compute), collect mismatches
  4. classify against known_findings.json, write evidence/<ID>.json, exit 0/1
"""
import concurrent.futures
import fcntl
import hashlib
import json
import os
import re
import subprocess
import sys
import time

VERIF = os.path.dirname(os.path.dirname(os.path.abspath(__file__)))
REPO = os.environ.get("VERIF_REPO", "/repo")
COQ = os.path.join(VERIF, "coq")
BUILD = os.path.join(VERIF, "build")
GOENV = dict(os.environ, GOFLAGS="-mod=mod", GOPROXY="off", GOSUMDB="off", GOTOOLCHAIN="local",
             CGO_ENABLED=os.environ.get("CGO_ENABLED", "0"))
JOBS = str(min(16, os.cpu_count() or 4))
# a scratch copy of the repository (mutation testing of hand-modelled properties): outputs are kept apart
SUFFIX = ("-" + hashlib.sha1(REPO.encode()).hexdigest()[:8]) if REPO != "/repo" else ""

FORBIDDEN = re.compile(r"\b(Admitted|admit|Axiom|Axioms|Parameter|Parameters|Conjecture|Conjectures|Hypothesis|Hypotheses|Variable|Variables)\b|Unset\s+Guard|Unset\s+Positivity|Unset\s+Universe|bypass_check|type-in-type|Admit\s+Obligations")


def sh(cmd, cwd=None, env=None, timeout=None):
    p = subprocess.run(cmd, cwd=cwd, env=env, stdout=subprocess.PIPE, stderr=subprocess.STDOUT,
                       timeout=timeout, text=True, errors="replace")
    return p.returncode, p.stdout


class Lock:
    def __enter__(self):
        os.makedirs(BUILD, exist_ok=True)
        self.f = open(os.path.join(BUILD, ".lock"), "w")
        fcntl.flock(self.f, fcntl.LOCK_EX)
        return self

    def __exit__(self, *a):
        fcntl.flock(self.f, fcntl.LOCK_UN)
        self.f.close()


def build_tools(log, pid=None, want_harness=True):
    """go build translator and the property's harness program against the current /repo tree."""
    t = os.path.join(VERIF, "tools", "go2coq")
    rc, out = sh(["go", "build", "-o", "go2coq", "."], cwd=t, env=GOENV, timeout=600)
    log.append(("build go2coq", rc, out))
    if rc != 0:
        return False
    if not want_harness or pid is None:
        return True
    h = os.path.join(VERIF, "harness")
    gosum = os.path.join(REPO, "go.sum")
    if os.path.exists(gosum):
        with open(gosum) as f:
            data = f.read()
        dst = os.path.join(h, "go.sum")
        if not os.path.exists(dst) or open(dst).read() != data:
            with open(dst, "w") as f:
                f.write(data)
    os.makedirs(os.path.join(BUILD, "bin"), exist_ok=True)
    env = dict(GOENV)
    if RACE_PROPS.get(pid):
        env["CGO_ENABLED"] = "1"
    modflag = []
    if REPO != "/repo":
        mf = os.path.join(BUILD, "gomod" + SUFFIX)
        os.makedirs(mf, exist_ok=True)
        with open(os.path.join(mf, "go.mod"), "w") as f:
            f.write(open(os.path.join(h, "go.mod")).read().replace("=> /repo", "=> " + REPO))
        with open(os.path.join(mf, "go.sum"), "w") as f:
            f.write(open(gosum).read())
        modflag = ["-modfile=" + os.path.join(mf, "go.mod")]
    cmd = ["go", "build", "-tags", "verif"] + modflag + (["-race"] if RACE_PROPS.get(pid) else []) + \
          ["-o", os.path.join(BUILD, "bin", HARNESS_CMD.get(pid, pid.lower()) + SUFFIX), "./cmd/" + HARNESS_CMD.get(pid, pid.lower())]
    rc, out = sh(cmd, cwd=h, env=env, timeout=900)
    log.append(("build harness", rc, out))
    return rc == 0


RACE_PROPS = {}
HARNESS_CMD = {}   # property id -> harness program directory (default: the lower-cased id)


def translate(parts, log):
    if not parts:
        return True
    rc, out = sh([os.path.join(VERIF, "tools", "go2coq", "go2coq"), REPO, os.path.join(COQ, "Gen")] + parts,
                 timeout=600)
    log.append(("go2coq " + " ".join(parts), rc, out))
    return rc == 0


def ensure_makefile():
    """_CoqProject is generated from the directory listing (every .v under coq/), so that
    adding a file needs no shared edit; Makefile is regenerated when the listing changes."""
    vs = []
    for d, _, fs in os.walk(COQ):
        for f in fs:
            if f.endswith(".v"):
                vs.append(os.path.relpath(os.path.join(d, f), COQ))
    vs.sort()
    content = "-Q . NV\n-arg -w -arg -notation-overridden,-deprecated-hint-without-locality,-deprecated-instance-without-locality\n" + "\n".join(vs) + "\n"
    cp = os.path.join(COQ, "_CoqProject")
    mk = os.path.join(COQ, "Makefile")
    changed = not os.path.exists(cp) or open(cp).read() != content
    if changed:
        with open(cp, "w") as f:
            f.write(content)
    if changed or not os.path.exists(mk):
        sh(["coq_makefile", "-f", "_CoqProject", "-o", "Makefile"], cwd=COQ)


def coq_make(targets, log, timeout=3000, keep_going=True):
    ensure_makefile()
    cmd = ["timeout", str(timeout), "make", "-j", JOBS] + (["-k"] if keep_going else []) + targets
    for attempt in range(4):
        rc, out = sh(cmd, cwd=COQ, timeout=timeout + 60)
        # a stale .vo (e.g. after an interrupted run): remove it and rebuild
        stale = re.findall(r"Compiled library \S+ \(in file (\S+\.vo)\) makes inconsistent assumptions", out)
        if rc == 0 or not stale:
            break
        for f in set(stale):
            try:
                os.remove(f)
            except OSError:
                pass
    log.append(("make " + " ".join(targets), rc, out))
    return rc, out


ERR_RE = re.compile(r'File "\./([^"]+)", line (\d+), characters [\d-]+:\s*\n(Error:.*?)(?=\nmake|\nFile |\Z)', re.S)


def enclosing_statement(path, line):
    """name of the Theorem/Lemma/... whose proof contains [line] of file [path]"""
    try:
        src = open(os.path.join(COQ, path)).read().split("\n")
    except OSError:
        return "?"
    for i in range(min(line, len(src)) - 1, -1, -1):
        m = re.match(r"\s*(?:Local\s+|Global\s+)?(Theorem|Lemma|Corollary|Example|Fact|Proposition|Definition|Fixpoint|Instance)\s+([A-Za-z0-9_']+)", src[i])
        if m:
            return m.group(2)
    return "?"


def broken_obligations(make_out):
    res = []
    for m in ERR_RE.finditer(make_out):
        path, line, err = m.group(1), int(m.group(2)), m.group(3).strip()
        res.append({"file": path, "line": line, "statement": enclosing_statement(path, line),
                    "error": err[:600]})
    return res


STMT_RE = re.compile(r"^\s*(?:Local\s+|Global\s+)?(Theorem|Lemma|Corollary|Example|Fact|Proposition)\s+([A-Za-z0-9_']+)", re.M)


def count_statements(files):
    n = 0
    names = []
    for f in files:
        try:
            src = open(os.path.join(COQ, f)).read()
        except OSError:
            continue
        for m in STMT_RE.finditer(src):
            n += 1
            names.append(f + ":" + m.group(2))
    return n, names


def scan_forbidden(files):
    """no Admitted/Axiom/... anywhere in the closure (comments stripped)"""
    hits = []
    for f in files:
        try:
            src = open(os.path.join(COQ, f)).read()
        except OSError:
            continue
        # strip comments (non-nested is enough for our sources; nested handled by loop)
        prev = None
        while prev != src:
            prev = src
            src = re.sub(r"\(\*(?:(?!\(\*|\*\)).)*\*\)", " ", src, flags=re.S)
        for m in FORBIDDEN.finditer(src):
            w = m.group(0)
            if w.split()[0] in ("Variable", "Variables", "Hypothesis", "Hypotheses"):
                # allowed inside a Section only
                before = src[:m.start()]
                if len(re.findall(r"^\s*Section\s", before, re.M)) > len(re.findall(r"^\s*End\s", before, re.M)):
                    continue
            hits.append(f + ": " + w)
    return hits


def closure_files(target_vs):
    """hand-written + generated .v files the targets depend on (via coqdep)"""
    ensure_makefile()
    rc, out = sh(["coqdep", "-f", "_CoqProject"], cwd=COQ)
    deps = {}
    for line in out.split("\n"):
        if ":" not in line:
            continue
        lhs, rhs = line.split(":", 1)
        tg = [x for x in lhs.split() if x.endswith(".vo")]
        ds = [x[:-1] for x in rhs.split() if x.endswith(".vo")]
        for t in tg:
            deps[t[:-1]] = ds
    seen = []
    todo = list(target_vs)
    while todo:
        v = todo.pop()
        if v in seen:
            continue
        seen.append(v)
        todo.extend(deps.get(v, []))
    return sorted(seen)


def print_assumptions(props_v, log):
    """re-run coqc on the Props file to capture its Print Assumptions output"""
    rc, out = sh(["timeout", "600", "coqc", "-Q", ".", "NV", "-w", "-notation-overridden,-deprecated-hint-without-locality,-deprecated-instance-without-locality", props_v], cwd=COQ, timeout=700)
    log.append(("coqc " + props_v, rc, out))
    closed = len(re.findall(r"Closed under the global context", out))
    axioms = []
    for m in re.finditer(r"Axioms:\s*\n(.*?)(?=\nClosed under|\nAxioms:|\Z)", out, re.S):
        for l in m.group(1).split("\n"):
            mm = re.match(r"^([A-Za-z0-9_.']+)\s*:", l)
            if mm:
                axioms.append(mm.group(1))
    return rc, closed, sorted(set(axioms))


def run_case_file(path):
    t0 = time.time()
    rc, out = sh(["bash", "-c", "ulimit -s 4000000 2>/dev/null || ulimit -s unlimited 2>/dev/null; exec timeout 900 coqc -Q %s NV -w -notation-overridden %s" % (COQ, path)],
                 cwd=os.path.dirname(path), timeout=1000)
    flat = " ".join(out.split())
    m = re.search(r"M = \[(.*?)\]\s*:", flat)
    if rc != 0 or not m:
        return path, None, out[-2000:], time.time() - t0
    body = m.group(1).strip()
    ids = [int(x) for x in re.findall(r"\d+", body)] if body else []
    return path, ids, "", time.time() - t0


def run_cases(outdir):
    files = sorted(f for f in os.listdir(outdir) if re.match(r"cases_\d+\.v$", f))
    mism, errors = [], []
    with concurrent.futures.ThreadPoolExecutor(max_workers=int(JOBS)) as ex:
        for path, ids, err, dt in ex.map(run_case_file, [os.path.join(outdir, f) for f in files]):
            if ids is None:
                errors.append({"file": os.path.basename(path), "output": err})
            else:
                mism.extend(ids)
    # tidy coqc by-products
    for f in os.listdir(outdir):
        if re.match(r"\.?cases_\d+\.(vo|vok|vos|glob|aux)$", f):
            try:
                os.remove(os.path.join(outdir, f))
            except OSError:
                pass
    return len(files), sorted(mism), errors


def load_descs(outdir):
    d = {}
    try:
        for line in open(os.path.join(outdir, "descs.txt"), errors="replace"):
            k, _, v = line.rstrip("\n").partition("\t")
            d[int(k)] = v
    except OSError:
        pass
    return d


# ---------------------------------------------------------------- known findings

def load_known():
    try:
        return json.load(open(os.path.join(VERIF, "known_findings.json")))["findings"]
    except OSError:
        return []


def finding_matches(entry, prop, failure):
    if entry.get("status") != "known" or entry.get("property") != prop:
        return False
    if entry.get("site") != failure.get("site"):
        return False
    if entry.get("class") and entry.get("class") != failure.get("class"):
        return False
    m = entry.get("match", {"kind": "any"})
    inp = failure.get("input")
    kind = m.get("kind")
    if kind == "any":
        return True
    if kind == "hexlen_lt":      # input is a hex string of octets shorter than n
        return isinstance(inp, str) and len(inp) // 2 < m["n"]
    if kind == "hexlen_in":
        return isinstance(inp, str) and len(inp) // 2 in m["values"]
    if kind == "regex":
        return isinstance(inp, str) and re.search(m["pattern"], inp) is not None
    if kind == "equals":
        return inp == m["value"]
    if kind == "field_regex":    # input is an object; field must match
        return isinstance(inp, dict) and re.search(m["pattern"], str(inp.get(m["field"], ""))) is not None
    return False


# ---------------------------------------------------------------- main flow

class RepoLock:
    """checks hold this shared while they read /repo; bin/mutcheck holds it exclusively while /repo is patched"""
    def __init__(self, exclusive=False):
        self.mode = fcntl.LOCK_EX if exclusive else fcntl.LOCK_SH

    def __enter__(self):
        os.makedirs(BUILD, exist_ok=True)
        self.f = open(os.path.join(BUILD, ".repolock"), "w")
        if not os.environ.get("VERIF_HAVE_REPOLOCK"):
            # writer preference: a writer holds the gate while it waits, so new readers queue behind it
            self.g = open(os.path.join(BUILD, ".repogate"), "w")
            if self.mode == fcntl.LOCK_EX:
                fcntl.flock(self.g, fcntl.LOCK_EX)
                fcntl.flock(self.f, fcntl.LOCK_EX)
            else:
                fcntl.flock(self.g, fcntl.LOCK_SH)
                fcntl.flock(self.f, fcntl.LOCK_SH)
                fcntl.flock(self.g, fcntl.LOCK_UN)
        return self

    def __exit__(self, *a):
        if not os.environ.get("VERIF_HAVE_REPOLOCK"):
            fcntl.flock(self.f, fcntl.LOCK_UN)
            if self.mode == fcntl.LOCK_EX:
                fcntl.flock(self.g, fcntl.LOCK_UN)
            self.g.close()
        self.f.close()


def check(cfg, tier, seed, replay=None):
    with RepoLock():
        return check_locked(cfg, tier, seed, replay)


def check_locked(cfg, tier, seed, replay=None):
    """cfg keys: id, gen (translator parts), model_targets, proof_targets, props_file,
    harness (bool), mismatch_is_failure (bool), level, trusted_base, assumptions, rule, explanation"""
    pid = cfg["id"]
    if cfg.get("harness_cmd"):
        HARNESS_CMD[pid] = cfg["harness_cmd"]
    if cfg.get("race"):
        RACE_PROPS[pid] = True
    t0 = time.time()
    log = []
    outdir = os.path.join(BUILD, pid + SUFFIX)
    os.makedirs(outdir, exist_ok=True)
    os.makedirs(os.path.join(VERIF, "evidence"), exist_ok=True)
    os.makedirs(os.path.join(VERIF, "replays"), exist_ok=True)
    problems = []          # things that make the run a violation
    broken = []
    model_ok = True
    make_out = ""
    with Lock():
        # order matters: the translator also writes the harness' tables (harness/cmd/*/gen_*.go),
        # so it runs before the harness is compiled
        tools_ok = build_tools(log, pid, False)
        translated = tools_ok and translate(cfg.get("gen", []), log)
        if tools_ok and not translated:
            problems.append({"kind": "translator", "detail": "go2coq failed", "output": log[-1][2][-3000:]})
        tools_ok = tools_ok and build_tools(log, pid, cfg.get("harness", True) and not cfg.get("parts"))
        if tools_ok and cfg.get("parts"):
            import props as _props
            for part in cfg["parts"]:
                pc = _props.PROPS.get(part, {})
                if pc.get("harness_cmd"):
                    HARNESS_CMD[part] = pc["harness_cmd"]
                tools_ok = tools_ok and build_tools(log, part, True)
        if not tools_ok:
            problems.append({"kind": "build", "detail": "translator or harness does not build against the current /repo tree",
                             "output": log[-1][2][-3000:]})
        else:
            mts = list(cfg.get("model_targets", []))
            if cfg.get("parts"):
                import props as _props
                for part in cfg["parts"]:
                    mts += [t for t in _props.PROPS.get(part, {}).get("model_targets", []) if t not in mts]
            rc_m, out_m = coq_make(mts, log) if mts else (0, "")
            if rc_m != 0:
                model_ok = False
                broken += broken_obligations(out_m)
            rc_p, make_out = coq_make(cfg["proof_targets"], log)
            if rc_p != 0:
                for b in broken_obligations(make_out):
                    if b not in broken:
                        broken.append(b)
                if not broken:
                    broken.append({"file": "?", "line": 0, "statement": "?", "error": make_out[-1500:]})
        files = closure_files([t[:-1] if t.endswith(".vo") else t for t in cfg["proof_targets"]]) if tools_ok else []
        forb = scan_forbidden(files)
        n_obl, obl_names = count_statements([f for f in files if not f.startswith("Gen/")])
        pa_rc, closed, axioms = (1, 0, [])
        if tools_ok and not broken:
            pa_rc, closed, axioms = print_assumptions(cfg["props_file"], log)
            if pa_rc != 0:
                broken.append({"file": cfg["props_file"], "line": 0, "statement": "?", "error": log[-1][2][-1500:]})
        # thorough tier: the independent checker re-checks the compiled property file and all it depends on
        coqchk_info = None
        if tier == "thorough" and tools_ok and not broken and not os.environ.get("VERIF_NO_COQCHK"):
            t1 = time.time()
            mod = "NV." + cfg["props_file"][:-2].replace("/", ".")
            rc_c, out_c = sh(["timeout", "5400", "coqchk", "-silent", "-o", "-Q", ".", "NV", mod], cwd=COQ, timeout=5500)
            log.append(("coqchk " + mod, rc_c, out_c[-4000:]))
            def field(name):
                m_ = re.search(r"\* " + re.escape(name) + r":\s*(.*?)(?=\n\s*\n|\n\*|\Z)", out_c, re.S)
                return m_.group(1).strip() if m_ else "?"
            coqchk_info = {"module": mod, "rc": rc_c, "wall_s": round(time.time() - t1, 1),
                           "axioms": field("Axioms"),
                           "type_in_type": field("Constants/Inductives relying on type-in-type"),
                           "unsafe_fixpoints": field("Constants/Inductives relying on unsafe (co)fixpoints"),
                           "assumed_positivity": field("Inductives whose positivity is assumed")}
            bad = rc_c != 0 or any(coqchk_info[k] != "<none>" for k in ("axioms", "type_in_type", "unsafe_fixpoints", "assumed_positivity"))
            if bad:
                broken.append({"file": cfg["props_file"], "line": 0, "statement": "coqchk",
                               "error": "coqchk rc=%s %s\n%s" % (rc_c, json.dumps(coqchk_info), out_c[-1200:])})
    for b in broken:
        problems.append({"kind": "proof", "detail": "proof obligation no longer checks: %s (%s:%d)" % (b["statement"], b["file"], b["line"]),
                         "error": b["error"]})
    for h in forb:
        problems.append({"kind": "forbidden", "detail": "forbidden vernacular in the development: " + h})
    allowed_ax = set(cfg.get("allowed_axioms", []))
    for a in axioms:
        if a not in allowed_ax:
            problems.append({"kind": "axiom", "detail": "theorem depends on an axiom not named in the trusted base: " + a})

    # ---- harness + correspondence (one run per part for a composite property)
    meta = {}
    failures, known_hits = [], []
    mismatches, case_errors, n_case_files = [], [], 0
    descs = {}
    known_props = [pid] + list(cfg.get("parts", [])) + list(cfg.get("known_props", []))
    runs = []
    if tools_ok and cfg.get("parts"):
        import props as _props
        for part in cfg["parts"]:
            pc = _props.PROPS.get(part, {})
            runs.append((part, HARNESS_CMD.get(part, pc.get("harness_cmd", part.lower())), os.path.join(outdir, part),
                         bool(pc.get("mismatch_is_failure"))))
    elif tools_ok and cfg.get("harness", True):
        runs.append((pid, HARNESS_CMD.get(pid, pid.lower()), outdir, bool(cfg.get("mismatch_is_failure"))))
    part_mismatch_is_failure = False
    for rid, rbin, rdir, rmif in runs:
        os.makedirs(rdir, exist_ok=True)
        args = [os.path.join(BUILD, "bin", rbin + SUFFIX), rdir, tier, str(seed)]
        if replay:
            args.append(replay)
        try:
            rc, out = sh(args, timeout=cfg.get("harness_timeout", 3000), env=dict(GOENV, VERIF_REPO=REPO, VERIF_PROP=rid))
        except subprocess.TimeoutExpired:
            rc, out = 124, "harness timed out"
        log.append(("harness " + rid, rc, out))
        if rc != 0:
            if "WARNING: DATA RACE" in out:
                # the race detector exhibited a concrete racy pair of accesses: that is the failing schedule
                failures.append({"site": "library (concurrent use)", "class": "data-race",
                                 "input": {"seed": seed, "tier": tier, "harness": rid},
                                 "detail": out[out.index("WARNING: DATA RACE"):][:3000]})
            else:
                problems.append({"kind": "harness", "detail": "harness %s exited with %d" % (rid, rc), "output": out[-3000:]})
            continue
        pm = json.load(open(os.path.join(rdir, "meta.json")))
        # merge the parts' metadata
        for k in ("evaluations", "distinct_nontrivial", "cases"):
            meta[k] = int(meta.get(k, 0)) + int(pm.get(k, 0))
        meta.setdefault("samples", []).extend((pm.get("samples") or [])[:3])
        for k in ("streams", "distribution", "extra"):
            d0 = meta.setdefault(k, {})
            for kk, vv in (pm.get(k) or {}).items():
                d0[(rid + ":" + kk) if len(runs) > 1 else kk] = vv
        known = load_known()
        for f in pm.get("failures") or []:
            if cfg.get("failure_classes") and f.get("class") not in cfg["failure_classes"]:
                continue      # this property is only about these classes of failure (e.g. panic / hang)
            hit = next((e for e in known if any(finding_matches(e, kp, f) for kp in known_props)), None)
            if hit:
                known_hits.append((hit, f))
            else:
                failures.append(f)
        if model_ok and not cfg.get("skip_correspondence"):
            n1, mm, ce = run_cases(rdir)
            n_case_files += n1
            dd = load_descs(rdir)
            base = len(descs) + 1000000 * len([1 for x in runs if x[0] < rid]) if len(runs) > 1 else 0
            for i in mm:
                mismatches.append(base + i)
                descs[base + i] = (rid + ": " if len(runs) > 1 else "") + dd.get(i, "?")
            if mm and rmif:
                part_mismatch_is_failure = True
            for e in ce:
                case_errors.append(e)
                problems.append({"kind": "correspondence", "detail": "model could not be evaluated on %s %s" % (rid, e["file"]),
                                 "output": e["output"]})
        elif not model_ok:
            problems.append({"kind": "correspondence", "detail": "model does not compile; correspondence not run"})

    # ---- verdict
    lines = []
    seen_known = set()
    for hit, f in known_hits:
        k = hit.get("id", "") + hit["site"]
        if k in seen_known:
            continue
        seen_known.add(k)
        lines.append("KNOWN-FINDING: property=%s %s %s: %s" % (pid, hit.get("id", ""), hit["site"], hit.get("what", f.get("detail", ""))))
    violation = None
    if failures:
        violation = {"kind": "failing-input", "failure": failures[0], "more": failures[1:20], "found": True}
    elif mismatches:
        violation = {"kind": "correspondence", "found": bool(cfg.get("mismatch_is_failure")) or part_mismatch_is_failure,
                     "detail": "implementation and proven model disagree on %d case(s)" % len(mismatches),
                     "cases": [{"id": i, "case": descs.get(i, "?")} for i in mismatches[:20]],
                     "correspondence": cfg.get("corr_name", pid + "/Corr.v mismatches = []")}
    elif problems:
        violation = {"kind": problems[0]["kind"], "found": False, "problems": problems[:20]}
    if violation:
        violation["property"] = pid
        violation["problems"] = problems[:20]
        violation["seed"] = seed
        violation["tier"] = tier
        violation["replay_hint"] = "bin/check %s --tier %s  (VERIF_SEED=%d)" % (pid, tier, seed)
        h = hashlib.sha1(json.dumps(violation, sort_keys=True, default=str).encode()).hexdigest()[:10]
        rp = os.path.join(VERIF, "replays", "%s-%s.json" % (pid, h))
        json.dump(violation, open(rp, "w"), indent=1, default=str)
        tail = "" if violation.get("found") else " no-failing-input-found"
        lines.append("VIOLATION property=%s replay=%s%s" % (pid, rp, tail))

    # ---- evidence
    discharged = n_obl - len([b for b in broken])
    if discharged < 0:
        discharged = 0
    cov = {
        "obligations": max(n_obl, 1),
        "discharged": max(discharged, 0) if broken else max(n_obl, 1),
        "checker_cmd": "cd /verif/coq && coq_makefile -f _CoqProject -o Makefile && make -j%s %s  (coqc 8.16.1 kernel, full .vo); Print Assumptions via coqc %s" % (JOBS, " ".join(cfg["proof_targets"]), cfg["props_file"]),
        "trusted_base": cfg.get("trusted_base", []),
        "theorems_closed_under_global_context": closed,
        "axioms": axioms,
        "coqchk": coqchk_info if coqchk_info else "thorough tier only",
        "broken_obligations": broken[:20],
        "statements": obl_names[:400],
        "evaluations": int(meta.get("evaluations", 0)),
        "distinct_nontrivial": int(meta.get("distinct_nontrivial", 0)),
        "rule": cfg.get("rule", ""),
        "samples": (meta.get("samples") or [])[:6] or [{"obligation": n} for n in obl_names[:3]],
        "streams": meta.get("streams", {}),
        "distribution": meta.get("distribution", {}),
        "correspondence_case_files": n_case_files,
        "correspondence_cases": int(meta.get("cases", 0)),
        "correspondence_mismatches": len(mismatches),
        "implementation_oracle_failures": len(failures),
        "known_findings_hit": sorted(set(h.get("id", h["site"]) for h, _ in known_hits)),
        "generated_from": cfg.get("gen", []),
        "exhaustive": bool(cfg.get("exhaustive", False)) and tier == "thorough",
        "explanation": cfg.get("explanation", ""),
        "extra": meta.get("extra", {}),
    }
    ev = {
        "property_id": pid, "tier": tier, "seed": seed, "level": cfg.get("level", "proof"),
        "coverage": cov, "assumptions": cfg.get("assumptions", []),
        "wall_s": round(time.time() - t0, 2), "violations": 1 if violation else 0,
    }
    # a run against a patched tree (bin/mutcheck) never overwrites the evidence of the real tree
    evpath = os.path.join(VERIF, "evidence", pid + ".json") if not (SUFFIX or os.environ.get("VERIF_MUT")) else os.path.join(outdir, "evidence.json")
    json.dump(ev, open(evpath, "w"), indent=1, default=str)
    with open(os.path.join(outdir, "log.txt"), "w") as lf:
        for name, rc, out in log:
            lf.write("=== %s (rc=%s)\n%s\n" % (name, rc, out))
    for l in lines:
        print(l)
    print("%s %s tier=%s seed=%d obligations=%d discharged=%d evaluations=%d mismatches=%d failures=%d known=%d wall=%.1fs" % (
        "FAIL" if violation else "OK", pid, tier, seed, cov["obligations"], cov["discharged"], cov["evaluations"],
        len(mismatches), len(failures), len(known_hits), time.time() - t0))
    return 1 if violation else 0
