package main

import (
	"fmt"
	"go/ast"
	"go/types"
	"path/filepath"
	"regexp"
	"sort"
	"strings"
)

var layoutRe = regexp.MustCompile(`^\s*(\w+)\s+Row,\s*sBit,\s*len\s*=\s*\[\s*(\d*)\s*,?\s*(\d*)\s*\]\s*,\s*(\d+)\s*,\s*(\w+)\s*$`)

type shapeInfo struct {
	iei   bool
	lenw  int
	back  string // BScalar | BArray n | BBuffer | BNone
	known bool
}

func structShape(st *ast.StructType, info *types.Info) shapeInfo {
	sh := shapeInfo{back: "BNone", known: true}
	for _, f := range st.Fields.List {
		for _, n := range f.Names {
			t := info.Types[f.Type].Type
			switch n.Name {
			case "Iei":
				sh.iei = true
			case "Len":
				if b, ok := t.Underlying().(*types.Basic); ok {
					switch b.Kind() {
					case types.Uint8:
						sh.lenw = 1
					case types.Uint16:
						sh.lenw = 2
					default:
						sh.known = false
					}
				}
			case "Octet":
				switch u := t.Underlying().(type) {
				case *types.Basic:
					if u.Kind() == types.Uint8 {
						sh.back = "BScalar"
					} else {
						sh.known = false
					}
				case *types.Array:
					sh.back = fmt.Sprintf("(BArray %d)", u.Len())
				default:
					sh.known = false
				}
			case "Buffer":
				if _, ok := t.Underlying().(*types.Slice); ok {
					sh.back = "BBuffer"
				} else {
					sh.known = false
				}
			default:
				sh.known = false
			}
		}
	}
	return sh
}

func (s shapeInfo) coq() string {
	return fmt.Sprintf("(mkshape %v %d %s)", s.iei, s.lenw, s.back)
}

func genAccessors(repo, out string) {
	_, files, info := loadPkg(filepath.Join(repo, "nasType"), nil)
	shapes := map[string]shapeInfo{}
	var typeNames []string
	for _, f := range files {
		for _, d := range f.Decls {
			gd, ok := d.(*ast.GenDecl)
			if !ok {
				continue
			}
			for _, sp := range gd.Specs {
				ts, ok := sp.(*ast.TypeSpec)
				if !ok {
					continue
				}
				if st, ok := ts.Type.(*ast.StructType); ok {
					shapes[ts.Name.Name] = structShape(st, info)
					typeNames = append(typeNames, ts.Name.Name)
				}
			}
		}
	}
	sort.Strings(typeNames)
	type acc struct {
		typ, name, term string
		goinfo          string
	}
	var accs []acc
	var skipped []string
	var maskBody string
	for _, f := range files {
		for _, d := range f.Decls {
			fd, ok := d.(*ast.FuncDecl)
			if !ok || fd.Body == nil {
				continue
			}
			if fd.Recv == nil {
				if fd.Name.Name == "GetBitMask" {
					c := newCtx(info, fd)
					// bitMask = e ; return bitMask
					if len(fd.Body.List) == 2 {
						if as, ok := fd.Body.List[0].(*ast.AssignStmt); ok && len(as.Rhs) == 1 {
							maskBody = c.expr(as.Rhs[0])
						}
					}
					if maskBody == "" || len(c.unk) > 0 {
						maskBody = "EUnknown"
					}
				}
				continue
			}
			name := fd.Name.Name
			if !(strings.HasPrefix(name, "Get") || strings.HasPrefix(name, "Set")) || len(name) < 4 {
				continue
			}
			// receiver type
			var tname string
			if se, ok := fd.Recv.List[0].Type.(*ast.StarExpr); ok {
				if id, ok := se.X.(*ast.Ident); ok {
					tname = id.Name
				}
			}
			sh, ok := shapes[tname]
			if !ok || !sh.known {
				skipped = append(skipped, tname+"."+name)
				continue
			}
			c := newCtx(info, fd)
			// array result length / param array length
			resLen := ""
			pty := "None"
			plen := "None"
			if fd.Type.Results != nil && len(fd.Type.Results.List) == 1 {
				rt := info.Types[fd.Type.Results.List[0].Type].Type
				if a, ok := rt.Underlying().(*types.Array); ok {
					resLen = fmt.Sprint(a.Len())
					plen = fmt.Sprintf("(Some %d%%nat)", a.Len())
				} else if t, ok := coqTy(rt); ok {
					pty = "(Some " + t + ")"
				}
			}
			for _, p := range fd.Type.Params.List {
				pt := info.Types[p.Type].Type
				if a, ok := pt.Underlying().(*types.Array); ok {
					plen = fmt.Sprintf("(Some %d%%nat)", a.Len())
				} else if t, ok := coqTy(pt); ok {
					pty = "(Some " + t + ")"
				}
			}
			body := c.stmts(fd.Body.List, resLen)
			if len(c.unk) > 0 {
				skipped = append(skipped, tname+"."+name)
				continue
			}
			// layout comment: last line of the doc comment
			layout := "None"
			if fd.Doc != nil {
				lines := strings.Split(strings.TrimSpace(fd.Doc.Text()), "\n")
				for _, l := range lines {
					if m := layoutRe.FindStringSubmatch(l); m != nil {
						rows := "None"
						if m[2] != "" && m[3] != "" {
							rows = fmt.Sprintf("(Some (%s%%nat, %s%%nat))", m[2], m[3])
						}
						ln := "None"
						if m[5] != "INF" {
							ln = "(Some " + m[5] + "%nat)"
						}
						layout = fmt.Sprintf("(Some (mklayout %q%%string %s %s %s))", m[1], rows, m[4], ln)
					}
				}
			}
			goR0, goR1, goSbit, goLen, goHas := -1, -1, 0, -1, false
			if fd.Doc != nil {
				for _, l := range strings.Split(strings.TrimSpace(fd.Doc.Text()), "\n") {
					if m := layoutRe.FindStringSubmatch(l); m != nil {
						goHas = true
						goR0, goR1, goLen = -1, -1, -1
						if m[2] != "" && m[3] != "" {
							fmt.Sscan(m[2], &goR0)
							fmt.Sscan(m[3], &goR1)
						}
						fmt.Sscan(m[4], &goSbit)
						if m[5] != "INF" {
							fmt.Sscan(m[5], &goLen)
						}
					}
				}
			}
			goinfo := fmt.Sprintf("{%q, %q, %v, %v, %d, %d, %d, %d},", tname, name, strings.HasPrefix(name, "Set"), goHas, goR0, goR1, goSbit, goLen)
			term := fmt.Sprintf("mkacc %q%%string %q%%string %v %s %s %s %s %s",
				tname, name, strings.HasPrefix(name, "Set"), layout, sh.coq(), pty, plen, coqList(body, "; "))
			accs = append(accs, acc{tname, name, term, goinfo})
		}
	}
	sort.Slice(accs, func(i, j int) bool {
		if accs[i].typ != accs[j].typ {
			return accs[i].typ < accs[j].typ
		}
		return accs[i].name < accs[j].name
	})
	sort.Strings(skipped)
	var sb strings.Builder
	sb.WriteString("(* GENERATED by tools/go2coq from nasType/*.go -- do not edit *)\n")
	sb.WriteString("From NV Require Import Lib.Base Lib.BV C09.Types.\nFrom Coq Require Import String.\n\n")
	sb.WriteString("Definition mask_body : expr := " + maskBody + ".\n\n")
	var items []string
	for _, a := range accs {
		items = append(items, "  "+a.term)
	}
	sb.WriteString("Definition accessors : list accessor :=\n" + coqList(items, ";\n") + ".\n\n")
	var sk []string
	for _, s := range skipped {
		sk = append(sk, fmt.Sprintf("  %q%%string", s))
	}
	sb.WriteString("(* Get*/Set* methods outside the BV fragment (hand-modelled elsewhere) *)\n")
	sb.WriteString("Definition accessors_skipped : list string :=\n" + coqList(sk, ";\n") + ".\n")
	writeIfChanged(filepath.Join(out, "GenAccessors.v"), sb.String())

	// Go table for the harness (same source, same order)
	var gb strings.Builder
	gb.WriteString("// GENERATED by tools/go2coq from nasType/*.go -- do not edit\npackage main\n\nimport \"github.com/free5gc/nas/nasType\"\n\n")
	gb.WriteString("type accInfo struct {\n\tT, M string\n\tSet, HasLayout bool\n\tR0, R1, SBit, Len int\n}\n\n")
	gb.WriteString("var genTypes = map[string]func() interface{}{\n")
	seen := map[string]bool{}
	for _, a := range accs {
		if !seen[a.typ] {
			seen[a.typ] = true
			fmt.Fprintf(&gb, "\t%q: func() interface{} { return &nasType.%s{} },\n", a.typ, a.typ)
		}
	}
	gb.WriteString("}\n\nvar genAccs = []accInfo{\n")
	for _, a := range accs {
		gb.WriteString("\t" + a.goinfo + "\n")
	}
	gb.WriteString("}\n")
	writeIfChanged(filepath.Join(out, "..", "..", "harness", "cmd", "c09", "gen_table.go"), gb.String())
}
