package main

func genTables(repo, out string)  {}
func genGlobals(repo, out string) {}
