package main

func genMsgs(repo, out string)    {}
func genTables(repo, out string)  {}
func genGlobals(repo, out string) {}
