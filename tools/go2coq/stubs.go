package main

func genTables(repo, out string)  {}
