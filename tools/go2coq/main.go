// go2coq: transliterates table-shaped parts of free5gc/nas into Coq terms.
// It gives no meaning to anything: it prints syntax trees in the BV / CS
// languages defined in /verif/coq/Lib and refuses (prints an "unknown" node
// for) everything outside them.  Stdlib only.
package main

import (
	"fmt"
	"os"
	"path/filepath"
)

func usage() {
	fmt.Fprintln(os.Stderr, "usage: go2coq <repo> <outdir> [counter|accessors|msgs|tables|globals|all]...")
	os.Exit(2)
}

// writeIfChanged keeps timestamps stable so that make does not rebuild.
func writeIfChanged(path string, content string) {
	old, err := os.ReadFile(path)
	if err == nil && string(old) == content {
		return
	}
	if err := os.MkdirAll(filepath.Dir(path), 0o755); err != nil {
		panic(err)
	}
	if err := os.WriteFile(path, []byte(content), 0o644); err != nil {
		panic(err)
	}
}

func main() {
	if len(os.Args) < 4 {
		usage()
	}
	repo, out := os.Args[1], os.Args[2]
	for _, what := range os.Args[3:] {
		switch what {
		case "counter":
			genCounter(repo, out)
		case "accessors":
			genAccessors(repo, out)
		case "msgs":
			genMsgs(repo, out)
		case "tables":
			genTables(repo, out)
		case "globals":
			genGlobals(repo, out)
		case "all":
			genCounter(repo, out)
			genAccessors(repo, out)
			genMsgs(repo, out)
			genTables(repo, out)
			genGlobals(repo, out)
		default:
			usage()
		}
	}
}
