package main

import (
	"fmt"
	"go/ast"
	"go/token"
	"go/types"
	"path/filepath"
	"sort"
	"strings"
)

// genGlobals: inventory of package-level variables of the library packages, every use of one that
// is not a plain read (assignment target, ++/--, address taken, slice taken, method call on it,
// passed as an argument) outside init functions and initialisers, and the import lists.
func genGlobals(repo, out string) {
	pkgs := []string{".", "nasMessage", "nasType", "nasConvert", "security", "security/snow3g", "security/zuc", "uePolicyContainer", "logger"}
	var vars, uses, imps, varFiles, useFiles []string
	// first pass: names of package-level variables per package (for cross-package references pkg.Var)
	varNames := map[string]map[string]bool{}
	for _, p := range pkgs {
		_, files, _ := loadPkg(filepath.Join(repo, p), nil)
		last := filepath.Base(p)
		if p == "." {
			last = "nas"
		}
		varNames[last] = map[string]bool{}
		for _, f := range files {
			for _, d := range f.Decls {
				if gd, ok := d.(*ast.GenDecl); ok && gd.Tok == token.VAR {
					for _, sp := range gd.Specs {
						for _, n := range sp.(*ast.ValueSpec).Names {
							varNames[last][n.Name] = true
						}
					}
				}
			}
		}
	}
	for _, p := range pkgs {
		dir := filepath.Join(repo, p)
		fset, files, info := loadPkg(dir, nil)
		relFile := func(pos token.Pos) string { // path relative to the repository root, as the property anchors name files
			n := filepath.Base(fset.Position(pos).Filename)
			if p == "." {
				return n
			}
			return p + "/" + n
		}
		pname := p
		if p == "." {
			pname = "nas"
		}
		// package-level vars
		globals := map[types.Object]string{}
		for _, f := range files {
			for _, d := range f.Decls {
				gd, ok := d.(*ast.GenDecl)
				if !ok || gd.Tok != token.VAR {
					continue
				}
				for _, sp := range gd.Specs {
					vs := sp.(*ast.ValueSpec)
					for _, n := range vs.Names {
						if n.Name == "_" {
							continue
						}
						if obj := info.Defs[n]; obj != nil {
							globals[obj] = n.Name
							t := "?"
							if obj.Type() != nil {
								t = obj.Type().String()
							}
							vars = append(vars, fmt.Sprintf("  (%s, %s, %s)", q(pname), q(n.Name), q(t)))
							varFiles = append(varFiles, fmt.Sprintf("  (%s, %s, %s)", q(pname), q(n.Name), q(relFile(n.Pos()))))
						}
					}
				}
			}
			var is []string
			for _, im := range f.Imports {
				is = append(is, strings.Trim(im.Path.Value, "\""))
			}
			for _, i := range is {
				imps = append(imps, fmt.Sprintf("  (%s, %s)", q(pname), q(i)))
			}
		}
		rootGlobal := func(e ast.Expr) (string, bool) {
			for {
				switch x := e.(type) {
				case *ast.ParenExpr:
					e = x.X
				case *ast.IndexExpr:
					e = x.X
				case *ast.SelectorExpr:
					// pkg.Var of another library package
					if id, ok := x.X.(*ast.Ident); ok {
						if vs, ok := varNames[id.Name]; ok && vs[x.Sel.Name] && info.Uses[id] != nil {
							if _, isPkg := info.Uses[id].(*types.PkgName); isPkg {
								return id.Name + "." + x.Sel.Name, true
							}
						}
					}
					e = x.X
				case *ast.StarExpr:
					e = x.X
				case *ast.SliceExpr:
					e = x.X
				case *ast.Ident:
					if obj := info.Uses[x]; obj != nil {
						if n, ok := globals[obj]; ok {
							return n, true
						}
					}
					return "", false
				default:
					return "", false
				}
			}
		}
		for _, f := range files {
			for _, d := range f.Decls {
				fd, ok := d.(*ast.FuncDecl)
				if !ok || fd.Body == nil {
					continue
				}
				if fd.Recv == nil && fd.Name.Name == "init" {
					continue
				}
				fn := fd.Name.Name
				add := func(v, kind string) {
					uses = append(uses, fmt.Sprintf("  (%s, %s, %s, %s)", q(pname), q(v), q(fn), kind))
					useFiles = append(useFiles, fmt.Sprintf("  (%s, %s, %s, %s)", q(pname), q(v), q(relFile(fd.Pos())), kind))
				}
				ast.Inspect(fd.Body, func(n ast.Node) bool {
					switch x := n.(type) {
					case *ast.AssignStmt:
						for _, l := range x.Lhs {
							if v, ok := rootGlobal(l); ok {
								add(v, "UWrite")
							}
						}
					case *ast.IncDecStmt:
						if v, ok := rootGlobal(x.X); ok {
							add(v, "UWrite")
						}
					case *ast.UnaryExpr:
						if x.Op == token.AND {
							if v, ok := rootGlobal(x.X); ok {
								add(v, "UAddr")
							}
						}
					case *ast.SliceExpr:
						if v, ok := rootGlobal(x.X); ok {
							add(v, "USlice")
						}
					case *ast.RangeStmt:
						if x.Key != nil {
							if v, ok := rootGlobal(x.Key); ok {
								add(v, "UWrite")
							}
						}
						if x.Value != nil {
							if v, ok := rootGlobal(x.Value); ok {
								add(v, "UWrite")
							}
						}
					case *ast.CallExpr:
						if sel, ok := x.Fun.(*ast.SelectorExpr); ok {
							if v, ok := rootGlobal(sel.X); ok {
								add(v, "UMethod")
							}
						}
						for _, a := range x.Args {
							if id, ok := a.(*ast.Ident); ok {
								if obj := info.Uses[id]; obj != nil {
									if v, ok := globals[obj]; ok {
										add(v, "UArg")
									}
								}
							}
						}
					}
					return true
				})
			}
		}
	}
	sort.Strings(vars)
	sort.Strings(uses)
	sort.Strings(imps)
	sort.Strings(varFiles)
	sort.Strings(useFiles)
	uniq := func(l []string) []string {
		var o []string
		for i, x := range l {
			if i == 0 || x != l[i-1] {
				o = append(o, x)
			}
		}
		return o
	}
	var sb strings.Builder
	sb.WriteString("(* GENERATED by tools/go2coq from all library packages -- do not edit *)\n")
	sb.WriteString("From NV Require Import Lib.Base C19.Types.\nFrom Coq Require Import String.\n\n")
	sb.WriteString("Definition package_vars : list (string * string * string) :=\n" + coqList(uniq(vars), ";\n") + ".\n\n")
	sb.WriteString("Definition global_uses : list (string * string * string * use_kind) :=\n" + coqList(uniq(uses), ";\n") + ".\n\n")
	sb.WriteString("Definition package_imports : list (string * string) :=\n" + coqList(uniq(imps), ";\n") + ".\n\n")
	sb.WriteString("(* (package, variable, file that declares it) and (package, variable, file of the use, kind) *)\n")
	sb.WriteString("Definition package_var_files : list (string * string * string) :=\n" + coqList(uniq(varFiles), ";\n") + ".\n\n")
	sb.WriteString("Definition global_use_files : list (string * string * string * use_kind) :=\n" + coqList(uniq(useFiles), ";\n") + ".\n")
	writeIfChanged(filepath.Join(out, "GenGlobals.v"), sb.String())
}
