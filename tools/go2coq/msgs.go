package main

import (
	"fmt"
	"go/ast"
	"go/token"
	"go/types"
	"os"
	"path/filepath"
	"sort"
	"strings"
)

// ---------------------------------------------------------------------------
// Dumb transliteration of the generated Encode*/Decode* functions into the CS
// statement language (coq/Codec/Lang.v).  Anything that is not exactly one of
// the known statement forms becomes DUnknown / EUnknown.

type msgCtx struct {
	info *types.Info
	recv string // "a"
	unk  int
}

func q(s string) string { return fmt.Sprintf("%q%%string", s) }

// a.X  -> X
func (c *msgCtx) recvField(e ast.Expr) (string, bool) {
	s, ok := e.(*ast.SelectorExpr)
	if !ok {
		return "", false
	}
	id, ok := s.X.(*ast.Ident)
	if !ok || id.Name != c.recv {
		return "", false
	}
	return s.Sel.Name, true
}

// a.X.F -> (X, F)
func (c *msgCtx) recvField2(e ast.Expr) (string, string, bool) {
	s, ok := e.(*ast.SelectorExpr)
	if !ok {
		return "", "", false
	}
	x, ok := c.recvField(s.X)
	if !ok {
		return "", "", false
	}
	return x, s.Sel.Name, true
}

// a.X.M() -> (X, M)
func (c *msgCtx) recvCall0(e ast.Expr) (string, string, bool) {
	call, ok := e.(*ast.CallExpr)
	if !ok || len(call.Args) != 0 {
		return "", "", false
	}
	return c.recvField2(call.Fun)
}

func (c *msgCtx) constN(e ast.Expr) (string, bool) {
	if tv, ok := c.info.Types[e]; ok && tv.Value != nil {
		return coqN(tv.Value)
	}
	return "", false
}

// isErrReturn: `return fmt.Errorf("...", ...)` (a non-nil error)
func isErrReturn(body *ast.BlockStmt) bool {
	if body == nil || len(body.List) != 1 {
		return false
	}
	r, ok := body.List[0].(*ast.ReturnStmt)
	if !ok || len(r.Results) != 1 {
		return false
	}
	call, ok := r.Results[0].(*ast.CallExpr)
	if !ok {
		return false
	}
	sel, ok := call.Fun.(*ast.SelectorExpr)
	if !ok {
		return false
	}
	pkg, ok := sel.X.(*ast.Ident)
	return ok && pkg.Name == "fmt" && sel.Sel.Name == "Errorf" && len(call.Args) >= 1
}

// binaryRW recognises  if err := binary.Read|Write(buffer, binary.BigEndian, ARG); err != nil { return fmt.Errorf(...) }
func (c *msgCtx) binaryRW(s ast.Stmt, fn string) (ast.Expr, bool) {
	is, ok := s.(*ast.IfStmt)
	if !ok || is.Else != nil || is.Init == nil || !isErrReturn(is.Body) {
		return nil, false
	}
	as, ok := is.Init.(*ast.AssignStmt)
	if !ok || as.Tok != token.DEFINE || len(as.Lhs) != 1 || len(as.Rhs) != 1 {
		return nil, false
	}
	errID, ok := as.Lhs[0].(*ast.Ident)
	if !ok {
		return nil, false
	}
	cond, ok := is.Cond.(*ast.BinaryExpr)
	if !ok || cond.Op != token.NEQ {
		return nil, false
	}
	cl, ok1 := cond.X.(*ast.Ident)
	cr, ok2 := cond.Y.(*ast.Ident)
	if !ok1 || !ok2 || cl.Name != errID.Name || cr.Name != "nil" {
		return nil, false
	}
	call, ok := as.Rhs[0].(*ast.CallExpr)
	if !ok || len(call.Args) != 3 {
		return nil, false
	}
	sel, ok := call.Fun.(*ast.SelectorExpr)
	if !ok || sel.Sel.Name != fn {
		return nil, false
	}
	if p, ok := sel.X.(*ast.Ident); !ok || p.Name != "binary" {
		return nil, false
	}
	if b, ok := call.Args[0].(*ast.Ident); !ok || b.Name != "buffer" {
		return nil, false
	}
	if o, ok := call.Args[1].(*ast.SelectorExpr); !ok || o.Sel.Name != "BigEndian" {
		return nil, false
	} else if p, ok := o.X.(*ast.Ident); !ok || p.Name != "binary" {
		return nil, false
	}
	return call.Args[2], true
}

// target of a binary.Read
func (c *msgCtx) target(e ast.Expr) string {
	// &ieiN
	if u, ok := e.(*ast.UnaryExpr); ok && u.Op == token.AND {
		if id, ok := u.X.(*ast.Ident); ok && id.Name == "ieiN" {
			return "TIei"
		}
		if x, f, ok := c.recvField2(u.X); ok {
			switch f {
			case "Octet":
				return "TOctet " + q(x)
			case "Len":
				return "TLen " + q(x)
			}
		}
		if x, ok := c.recvField(u.X); ok {
			return "TStruct " + q(x)
		}
		return ""
	}
	if x, f, ok := c.recvField2(e); ok && f == "Buffer" {
		return "TBuf " + q(x)
	}
	if sl, ok := e.(*ast.SliceExpr); ok && !sl.Slice3 && sl.Low == nil {
		if x, f, ok := c.recvField2(sl.X); ok && f == "Octet" {
			if sl.High == nil {
				return "TArrAll " + q(x)
			}
			if n, ok := c.constN(sl.High); ok {
				return fmt.Sprintf("TArrN %s %s", q(x), n)
			}
			if y, m, ok := c.recvCall0(sl.High); ok && y == x && m == "GetLen" {
				return "TArrLen " + q(x)
			}
		}
	}
	return ""
}

// source of a binary.Write
func (c *msgCtx) source(e ast.Expr) string {
	if x, f, ok := c.recvField2(e); ok {
		switch f {
		case "Octet":
			return "SOctet " + q(x)
		case "Buffer":
			return "SBuf " + q(x)
		}
	}
	if x, m, ok := c.recvCall0(e); ok {
		switch m {
		case "GetLen":
			return "SGetLen " + q(x)
		case "GetIei":
			return "SGetIei " + q(x)
		}
	}
	if u, ok := e.(*ast.UnaryExpr); ok && u.Op == token.AND {
		if x, ok := c.recvField(u.X); ok {
			return "SStruct " + q(x)
		}
	}
	if sl, ok := e.(*ast.SliceExpr); ok && !sl.Slice3 && sl.Low == nil {
		if x, f, ok := c.recvField2(sl.X); ok && f == "Octet" {
			if sl.High == nil {
				return "SArrAll " + q(x)
			}
			if n, ok := c.constN(sl.High); ok {
				return fmt.Sprintf("SArrN %s %s", q(x), n)
			}
			if y, m, ok := c.recvCall0(sl.High); ok && y == x && m == "GetLen" {
				return "SArrLen " + q(x)
			}
		}
	}
	return ""
}

// length check:  if a.X.Len < m || a.X.Len > n { return fmt.Errorf }   (any || chain of <,>,!=)
// or             if a.X.Len != p && a.X.Len != q && ... { return ... }
func (c *msgCtx) lenCheck(s ast.Stmt) string {
	is, ok := s.(*ast.IfStmt)
	if !ok || is.Else != nil || is.Init != nil || !isErrReturn(is.Body) {
		return ""
	}
	var atoms []string
	slot := ""
	var walk func(e ast.Expr, op token.Token) bool
	walk = func(e ast.Expr, op token.Token) bool {
		b, ok := e.(*ast.BinaryExpr)
		if !ok {
			return false
		}
		if b.Op == op {
			return walk(b.X, op) && walk(b.Y, op)
		}
		x, f, ok := c.recvField2(b.X)
		if !ok || f != "Len" {
			return false
		}
		if slot == "" {
			slot = x
		} else if slot != x {
			return false
		}
		n, ok := c.constN(b.Y)
		if !ok {
			return false
		}
		switch b.Op {
		case token.LSS:
			atoms = append(atoms, "(CLt, "+n+")")
		case token.GTR:
			atoms = append(atoms, "(CGt, "+n+")")
		case token.NEQ:
			atoms = append(atoms, "(CNe, "+n+")")
		default:
			return false
		}
		return true
	}
	top, ok := is.Cond.(*ast.BinaryExpr)
	if !ok {
		return ""
	}
	if top.Op == token.LAND {
		if walk(is.Cond, token.LAND) {
			return fmt.Sprintf("DCheckAnd %s %s", q(slot), coqList(atoms, "; "))
		}
		return ""
	}
	if walk(is.Cond, token.LOR) {
		return fmt.Sprintf("DCheckOr %s %s", q(slot), coqList(atoms, "; "))
	}
	return ""
}

// if len(a.X.Buffer) != int(a.X.Len) { return fmt.Errorf(...) }
func (c *msgCtx) bufLenCheck(s ast.Stmt) string {
	is, ok := s.(*ast.IfStmt)
	if !ok || is.Else != nil || is.Init != nil || !isErrReturn(is.Body) {
		return ""
	}
	be, ok := is.Cond.(*ast.BinaryExpr)
	if !ok || be.Op != token.NEQ {
		return ""
	}
	l, ok := be.X.(*ast.CallExpr)
	if !ok || len(l.Args) != 1 {
		return ""
	}
	if f, ok := l.Fun.(*ast.Ident); !ok || f.Name != "len" {
		return ""
	}
	x, fld, ok := c.recvField2(l.Args[0])
	if !ok || fld != "Buffer" {
		return ""
	}
	r, ok := be.Y.(*ast.CallExpr)
	if !ok || len(r.Args) != 1 {
		return ""
	}
	if f, ok := r.Fun.(*ast.Ident); !ok || f.Name != "int" {
		return ""
	}
	y, fld2, ok := c.recvField2(r.Args[0])
	if !ok || fld2 != "Len" || y != x {
		return ""
	}
	return "DCheckBufLen " + q(x)
}

func (c *msgCtx) dstmt(s ast.Stmt) string {
	if arg, ok := c.binaryRW(s, "Read"); ok {
		if t := c.target(arg); t != "" {
			return "DRead (" + t + ")"
		}
		c.unk++
		return "DUnknown"
	}
	if lc := c.lenCheck(s); lc != "" {
		return lc
	}
	if bl := c.bufLenCheck(s); bl != "" {
		return bl
	}
	switch x := s.(type) {
	case *ast.ExprStmt:
		// a.X.SetLen(a.X.GetLen())
		if call, ok := x.X.(*ast.CallExpr); ok && len(call.Args) == 1 {
			if sx, m, ok := c.recvField2(call.Fun); ok && m == "SetLen" {
				if y, g, ok := c.recvCall0(call.Args[0]); ok && y == sx && g == "GetLen" {
					return "DSetLen " + q(sx)
				}
			}
		}
	case *ast.AssignStmt:
		if len(x.Lhs) == 1 && len(x.Rhs) == 1 && x.Tok == token.ASSIGN {
			// a.X = nasType.NewX(ieiN)
			if sx, ok := c.recvField(x.Lhs[0]); ok {
				if call, ok := x.Rhs[0].(*ast.CallExpr); ok && len(call.Args) == 1 {
					if sel, ok := call.Fun.(*ast.SelectorExpr); ok {
						if p, ok := sel.X.(*ast.Ident); ok && p.Name == "nasType" {
							if a0, ok := call.Args[0].(*ast.Ident); ok && a0.Name == "ieiN" {
								return fmt.Sprintf("DNew %s %s", q(sx), q(sel.Sel.Name))
							}
						}
					}
				}
			}
			// a.X.Octet = ieiN
			if sx, f, ok := c.recvField2(x.Lhs[0]); ok && f == "Octet" {
				if id, ok := x.Rhs[0].(*ast.Ident); ok && id.Name == "ieiN" {
					return "DOctetFromIei " + q(sx)
				}
			}
		}
	case *ast.ReturnStmt:
		if len(x.Results) == 1 {
			if id, ok := x.Results[0].(*ast.Ident); ok && id.Name == "nil" {
				return "DRetNil"
			}
		}
	case *ast.ForStmt:
		if l := c.loop(x); l != "" {
			return l
		}
	}
	c.unk++
	return "DUnknown"
}

// the optional-part loop, matched exactly:
//   for buffer.Len() > 0 { var ieiN uint8; var tmpIeiN uint8; READ(&ieiN);
//     if ieiN >= 0x80 { tmpIeiN = (ieiN & 0xf0) >> 4 } else { tmpIeiN = ieiN }
//     switch tmpIeiN { case C: ...; default: } }
func (c *msgCtx) loop(f *ast.ForStmt) string {
	if f.Init != nil || f.Post != nil || f.Cond == nil {
		return ""
	}
	cond, ok := f.Cond.(*ast.BinaryExpr)
	if !ok || cond.Op != token.GTR {
		return ""
	}
	if n, ok := c.constN(cond.Y); !ok || n != "0" {
		return ""
	}
	if call, ok := cond.X.(*ast.CallExpr); !ok || len(call.Args) != 0 {
		return ""
	} else if sel, ok := call.Fun.(*ast.SelectorExpr); !ok || sel.Sel.Name != "Len" {
		return ""
	} else if b, ok := sel.X.(*ast.Ident); !ok || b.Name != "buffer" {
		return ""
	}
	b := f.Body.List
	if len(b) != 5 {
		return ""
	}
	isVar := func(s ast.Stmt, name string) bool {
		d, ok := s.(*ast.DeclStmt)
		if !ok {
			return false
		}
		g, ok := d.Decl.(*ast.GenDecl)
		if !ok || g.Tok != token.VAR || len(g.Specs) != 1 {
			return false
		}
		v, ok := g.Specs[0].(*ast.ValueSpec)
		if !ok || len(v.Names) != 1 || v.Names[0].Name != name || len(v.Values) != 0 {
			return false
		}
		t, ok := v.Type.(*ast.Ident)
		return ok && t.Name == "uint8"
	}
	if !isVar(b[0], "ieiN") || !isVar(b[1], "tmpIeiN") {
		return ""
	}
	if arg, ok := c.binaryRW(b[2], "Read"); !ok || c.target(arg) != "TIei" {
		return ""
	}
	// classification
	ifs, ok := b[3].(*ast.IfStmt)
	if !ok || ifs.Init != nil || ifs.Else == nil {
		return ""
	}
	okc := func() bool {
		ce, ok := ifs.Cond.(*ast.BinaryExpr)
		if !ok || ce.Op != token.GEQ {
			return false
		}
		if id, ok := ce.X.(*ast.Ident); !ok || id.Name != "ieiN" {
			return false
		}
		if n, ok := c.constN(ce.Y); !ok || n != "128" {
			return false
		}
		// then: tmpIeiN = (ieiN & 0xf0) >> 4
		if len(ifs.Body.List) != 1 {
			return false
		}
		as, ok := ifs.Body.List[0].(*ast.AssignStmt)
		if !ok || as.Tok != token.ASSIGN || len(as.Lhs) != 1 || len(as.Rhs) != 1 {
			return false
		}
		if id, ok := as.Lhs[0].(*ast.Ident); !ok || id.Name != "tmpIeiN" {
			return false
		}
		sh, ok := as.Rhs[0].(*ast.BinaryExpr)
		if !ok || sh.Op != token.SHR {
			return false
		}
		if n, ok := c.constN(sh.Y); !ok || n != "4" {
			return false
		}
		var inner ast.Expr = sh.X
		if p, ok := inner.(*ast.ParenExpr); ok {
			inner = p.X
		}
		an, ok := inner.(*ast.BinaryExpr)
		if !ok || an.Op != token.AND {
			return false
		}
		if id, ok := an.X.(*ast.Ident); !ok || id.Name != "ieiN" {
			return false
		}
		if n, ok := c.constN(an.Y); !ok || n != "240" {
			return false
		}
		// else: tmpIeiN = ieiN
		eb, ok := ifs.Else.(*ast.BlockStmt)
		if !ok || len(eb.List) != 1 {
			return false
		}
		as2, ok := eb.List[0].(*ast.AssignStmt)
		if !ok || as2.Tok != token.ASSIGN || len(as2.Lhs) != 1 || len(as2.Rhs) != 1 {
			return false
		}
		l, ok1 := as2.Lhs[0].(*ast.Ident)
		r, ok2 := as2.Rhs[0].(*ast.Ident)
		return ok1 && ok2 && l.Name == "tmpIeiN" && r.Name == "ieiN"
	}
	if !okc() {
		return ""
	}
	sw, ok := b[4].(*ast.SwitchStmt)
	if !ok || sw.Init != nil {
		return ""
	}
	if id, ok := sw.Tag.(*ast.Ident); !ok || id.Name != "tmpIeiN" {
		return ""
	}
	var cases []string
	sawDefault := false
	for i, cs := range sw.Body.List {
		cc, ok := cs.(*ast.CaseClause)
		if !ok {
			return ""
		}
		if cc.List == nil {
			// default: must be last and empty
			if i != len(sw.Body.List)-1 || len(cc.Body) != 0 {
				return ""
			}
			sawDefault = true
			continue
		}
		if len(cc.List) != 1 {
			return ""
		}
		n, ok := c.constN(cc.List[0])
		if !ok {
			return ""
		}
		var body []string
		for _, st := range cc.Body {
			body = append(body, c.dstmt(st))
		}
		cases = append(cases, fmt.Sprintf("(%s, %s)", n, coqList(body, "; ")))
	}
	if !sawDefault {
		return ""
	}
	return "DLoop " + coqList(cases, ";\n      ")
}

func (c *msgCtx) estmt(s ast.Stmt) string {
	if arg, ok := c.binaryRW(s, "Write"); ok {
		if src := c.source(arg); src != "" {
			return "EWrite (" + src + ")"
		}
		c.unk++
		return "EUnknown"
	}
	switch x := s.(type) {
	case *ast.IfStmt:
		// if a.X != nil { ... }
		if x.Init == nil && x.Else == nil {
			if ce, ok := x.Cond.(*ast.BinaryExpr); ok && ce.Op == token.NEQ {
				if sx, ok := c.recvField(ce.X); ok {
					if id, ok := ce.Y.(*ast.Ident); ok && id.Name == "nil" {
						var body []string
						for _, st := range x.Body.List {
							body = append(body, c.estmt(st))
						}
						return fmt.Sprintf("EIfPresent %s %s", q(sx), coqList(body, "; "))
					}
				}
			}
		}
	case *ast.ReturnStmt:
		if len(x.Results) == 1 {
			if id, ok := x.Results[0].(*ast.Ident); ok && id.Name == "nil" {
				return "ERetNil"
			}
		}
	}
	c.unk++
	return "EUnknown"
}

// ---------------------------------------------------------------------------

type msgInfo struct {
	name   string
	fields []string // "(name, mandatory)"
	dec    []string
	enc    []string
	newOK  bool
	decOK  bool // prologue `buffer := bytes.NewBuffer(*byteArray)` present
}

func genMsgs(repo, out string) {
	_, files, info := loadPkg(filepath.Join(repo, "nasMessage"), nil)
	msgs := map[string]*msgInfo{}
	var names []string
	// structs
	for _, f := range files {
		for _, d := range f.Decls {
			gd, ok := d.(*ast.GenDecl)
			if !ok || gd.Tok != token.TYPE {
				continue
			}
			for _, sp := range gd.Specs {
				ts := sp.(*ast.TypeSpec)
				st, ok := ts.Type.(*ast.StructType)
				if !ok {
					continue
				}
				m := &msgInfo{name: ts.Name.Name}
				good := true
				for _, fl := range st.Fields.List {
					if len(fl.Names) != 0 {
						good = false
						continue
					}
					mand := true
					t := fl.Type
					if se, ok := t.(*ast.StarExpr); ok {
						mand = false
						t = se.X
					}
					sel, ok := t.(*ast.SelectorExpr)
					if !ok {
						good = false
						continue
					}
					if p, ok := sel.X.(*ast.Ident); !ok || p.Name != "nasType" {
						good = false
						continue
					}
					m.fields = append(m.fields, fmt.Sprintf("(%s, %v)", q(sel.Sel.Name), mand))
				}
				if good {
					msgs[m.name] = m
					names = append(names, m.name)
				}
			}
		}
	}
	sort.Strings(names)
	// functions
	for _, f := range files {
		for _, d := range f.Decls {
			fd, ok := d.(*ast.FuncDecl)
			if !ok || fd.Body == nil {
				continue
			}
			if fd.Recv == nil {
				// NewX(iei uint8) (x *X) { x = &X{}; return x }
				if strings.HasPrefix(fd.Name.Name, "New") {
					if m, ok := msgs[strings.TrimPrefix(fd.Name.Name, "New")]; ok {
						m.newOK = len(fd.Body.List) == 2
						if m.newOK {
							as, ok1 := fd.Body.List[0].(*ast.AssignStmt)
							_, ok2 := fd.Body.List[1].(*ast.ReturnStmt)
							m.newOK = ok1 && ok2 && len(as.Rhs) == 1
							if m.newOK {
								u, ok := as.Rhs[0].(*ast.UnaryExpr)
								m.newOK = ok && u.Op == token.AND
								if m.newOK {
									cl, ok := u.X.(*ast.CompositeLit)
									m.newOK = ok && len(cl.Elts) == 0
								}
							}
						}
					}
				}
				continue
			}
			var rname, tname string
			if len(fd.Recv.List) == 1 && len(fd.Recv.List[0].Names) == 1 {
				rname = fd.Recv.List[0].Names[0].Name
				if se, ok := fd.Recv.List[0].Type.(*ast.StarExpr); ok {
					if id, ok := se.X.(*ast.Ident); ok {
						tname = id.Name
					}
				}
			}
			m, ok := msgs[tname]
			if !ok {
				continue
			}
			c := &msgCtx{info: info, recv: rname}
			switch fd.Name.Name {
			case "Encode" + tname:
				for _, st := range fd.Body.List {
					m.enc = append(m.enc, c.estmt(st))
				}
			case "Decode" + tname:
				body := fd.Body.List
				// prologue: buffer := bytes.NewBuffer(*byteArray)
				if len(body) > 0 {
					if as, ok := body[0].(*ast.AssignStmt); ok && as.Tok == token.DEFINE && len(as.Lhs) == 1 && len(as.Rhs) == 1 {
						if id, ok := as.Lhs[0].(*ast.Ident); ok && id.Name == "buffer" {
							if call, ok := as.Rhs[0].(*ast.CallExpr); ok && len(call.Args) == 1 {
								if sel, ok := call.Fun.(*ast.SelectorExpr); ok && sel.Sel.Name == "NewBuffer" {
									if st, ok := call.Args[0].(*ast.StarExpr); ok {
										if a, ok := st.X.(*ast.Ident); ok && len(fd.Type.Params.List) == 1 && len(fd.Type.Params.List[0].Names) == 1 && a.Name == fd.Type.Params.List[0].Names[0].Name {
											m.decOK = true
											body = body[1:]
										}
									}
								}
							}
						}
					}
				}
				for _, st := range body {
					m.dec = append(m.dec, c.dstmt(st))
				}
			}
		}
	}
	var sb strings.Builder
	sb.WriteString("(* GENERATED by tools/go2coq from nasMessage/*.go -- do not edit *)\n")
	sb.WriteString("From NV Require Import Lib.Base Codec.Lang.\nFrom Coq Require Import String.\n\n")
	var all []string
	for _, n := range names {
		m := msgs[n]
		if len(m.dec) == 0 && len(m.enc) == 0 {
			continue
		}
		fmt.Fprintf(&sb, "Definition msg_%s : gmsg :=\n  mkgmsg %s\n    %s\n    (* decode *) %v\n    %s\n    (* encode *)\n    %s\n    %v.\n\n",
			n, q(n), coqList(m.fields, "; "), m.decOK, coqList(m.dec, ";\n     "), coqList(m.enc, ";\n     "), m.newOK)
		all = append(all, "msg_"+n)
	}
	sb.WriteString("Definition all_msgs : list gmsg :=\n  " + coqList(all, "; ") + ".\n")
	writeIfChanged(filepath.Join(out, "GenMsgs.v"), sb.String())
	writeGoMsgTable(out, names, msgs)
	genTypes(repo, out)
	genDispatch(repo, out)
}

// ---------------------------------------------------------------------------
// nasType: struct shapes and constructor shapes

func genTypes(repo, out string) {
	_, files, info := loadPkg(filepath.Join(repo, "nasType"), nil)
	type tinfo struct{ name, shape, ctor string }
	var ts []tinfo
	shapes := map[string]shapeInfo{}
	for _, f := range files {
		for _, d := range f.Decls {
			gd, ok := d.(*ast.GenDecl)
			if !ok || gd.Tok != token.TYPE {
				continue
			}
			for _, sp := range gd.Specs {
				t := sp.(*ast.TypeSpec)
				if st, ok := t.Type.(*ast.StructType); ok {
					shapes[t.Name.Name] = structShape(st, info)
				}
			}
		}
	}
	ctors := map[string]string{}
	for _, f := range files {
		for _, d := range f.Decls {
			fd, ok := d.(*ast.FuncDecl)
			if !ok || fd.Recv != nil || fd.Body == nil || !strings.HasPrefix(fd.Name.Name, "New") {
				continue
			}
			tn := strings.TrimPrefix(fd.Name.Name, "New")
			if _, ok := shapes[tn]; !ok {
				continue
			}
			// x = &T{} ; [x.SetIei(iei)] ; return x
			kind := "CtorUnknown"
			b := fd.Body.List
			okAlloc := func(s ast.Stmt) bool {
				as, ok := s.(*ast.AssignStmt)
				if !ok || len(as.Rhs) != 1 {
					return false
				}
				u, ok := as.Rhs[0].(*ast.UnaryExpr)
				if !ok || u.Op != token.AND {
					return false
				}
				cl, ok := u.X.(*ast.CompositeLit)
				if !ok || len(cl.Elts) != 0 {
					return false
				}
				id, ok := cl.Type.(*ast.Ident)
				return ok && id.Name == tn
			}
			okRet := func(s ast.Stmt) bool { _, ok := s.(*ast.ReturnStmt); return ok }
			okSetIei := func(s ast.Stmt) bool {
				es, ok := s.(*ast.ExprStmt)
				if !ok {
					return false
				}
				call, ok := es.X.(*ast.CallExpr)
				if !ok || len(call.Args) != 1 {
					return false
				}
				sel, ok := call.Fun.(*ast.SelectorExpr)
				if !ok || sel.Sel.Name != "SetIei" {
					return false
				}
				a0, ok := call.Args[0].(*ast.Ident)
				return ok && len(fd.Type.Params.List) == 1 && len(fd.Type.Params.List[0].Names) == 1 && a0.Name == fd.Type.Params.List[0].Names[0].Name
			}
			if len(b) == 2 && okAlloc(b[0]) && okRet(b[1]) {
				kind = "CtorPlain"
			}
			if len(b) == 3 && okAlloc(b[0]) && okSetIei(b[1]) && okRet(b[2]) {
				kind = "CtorSetIei"
			}
			ctors[tn] = kind
		}
	}
	var names []string
	for n := range shapes {
		names = append(names, n)
	}
	sort.Strings(names)
	for _, n := range names {
		sh := shapes[n]
		ct, ok := ctors[n]
		if !ok {
			ct = "CtorNone"
		}
		shape := "ShUnknown"
		if sh.known {
			shape = fmt.Sprintf("(ShKnown %v %d %s)", sh.iei, sh.lenw, strings.NewReplacer("BScalar", "TBScalar", "BArray", "TBArray", "BBuffer", "TBBuffer", "BNone", "TBNone").Replace(sh.back))
		}
		ts = append(ts, tinfo{n, shape, ct})
	}
	var sb strings.Builder
	sb.WriteString("(* GENERATED by tools/go2coq from nasType/*.go -- do not edit *)\n")
	sb.WriteString("From NV Require Import Lib.Base Codec.Lang.\nFrom Coq Require Import String.\n\n")
	var items []string
	for _, t := range ts {
		items = append(items, fmt.Sprintf("  (%s, %s, %s)", q(t.name), t.shape, t.ctor))
	}
	sb.WriteString("Definition nas_types : list (string * tshape * ctor_kind) :=\n" + coqList(items, ";\n") + ".\n")
	writeIfChanged(filepath.Join(out, "GenTypes.v"), sb.String())
}

// ---------------------------------------------------------------------------
// nas.go / nas_generated.go: dispatch switches

func genDispatch(repo, out string) {
	_, files, info := loadPkg(repo, func(n string) bool { return n == "nas.go" || n == "nas_generated.go" })
	c := &msgCtx{info: info, recv: "a"}
	type entry struct{ items []string }
	tables := map[string][]string{}
	defaults := map[string]string{}
	prologue := map[string]string{}
	var plainDec, plainEnc string
	for _, f := range files {
		for _, d := range f.Decls {
			fd, ok := d.(*ast.FuncDecl)
			if !ok || fd.Body == nil || fd.Recv == nil {
				continue
			}
			name := fd.Name.Name
			switch name {
			case "GmmMessageDecode", "GsmMessageDecode":
				part := name[:3] // Gmm / Gsm
				b := fd.Body.List
				// buffer := bytes.NewBuffer(*byteArray); a.XMessage = NewXMessage(); READ(&a.XMessage.XHeader); switch ...
				okPro := len(b) == 4
				if okPro {
					as, ok := b[1].(*ast.AssignStmt)
					okPro = ok && len(as.Lhs) == 1 && len(as.Rhs) == 1
					if okPro {
						x, ok1 := c.recvField(as.Lhs[0])
						call, ok2 := as.Rhs[0].(*ast.CallExpr)
						okPro = ok1 && ok2 && x == part+"Message" && len(call.Args) == 0
						if okPro {
							id, ok := call.Fun.(*ast.Ident)
							okPro = ok && id.Name == "New"+part+"Message"
						}
					}
				}
				if okPro {
					arg, ok := c.binaryRW(b[2], "Read")
					okPro = ok
					if ok {
						u, ok := arg.(*ast.UnaryExpr)
						okPro = ok && u.Op == token.AND
						if okPro {
							sel, ok := u.X.(*ast.SelectorExpr)
							okPro = ok && sel.Sel.Name == part+"Header"
						}
					}
				}
				prologue[name] = fmt.Sprint(okPro)
				if !okPro {
					continue
				}
				sw, ok := b[3].(*ast.SwitchStmt)
				if !ok {
					prologue[name] = "false"
					continue
				}
				for _, cs := range sw.Body.List {
					cc := cs.(*ast.CaseClause)
					if cc.List == nil {
						defaults[name] = fmt.Sprint(isErrReturn(&ast.BlockStmt{List: cc.Body}))
						continue
					}
					n, ok := c.constN(cc.List[0])
					item := "DispUnknown"
					if ok && len(cc.List) == 1 && len(cc.Body) == 2 {
						// a.XMessage.M = nasMessage.NewM(...) ; return a.XMessage.DecodeM(byteArray)
						as, ok1 := cc.Body[0].(*ast.AssignStmt)
						rs, ok2 := cc.Body[1].(*ast.ReturnStmt)
						if ok1 && ok2 && len(as.Lhs) == 1 && len(as.Rhs) == 1 && len(rs.Results) == 1 {
							_, fld, okf := c.recvField2(as.Lhs[0])
							ctor := ""
							if call, ok := as.Rhs[0].(*ast.CallExpr); ok {
								if sel, ok := call.Fun.(*ast.SelectorExpr); ok {
									ctor = sel.Sel.Name
								}
							}
							callee := ""
							if call, ok := rs.Results[0].(*ast.CallExpr); ok && len(call.Args) == 1 {
								if _, m, ok := c.recvField2(call.Fun); ok {
									if a0, ok := call.Args[0].(*ast.Ident); ok && a0.Name == fd.Type.Params.List[0].Names[0].Name {
										callee = m
									}
								}
							}
							if okf && ctor != "" && callee != "" {
								item = fmt.Sprintf("DispDec %s %s %s %s", n, q(fld), q(ctor), q(callee))
							}
						}
					}
					tables[name] = append(tables[name], item)
				}
			case "GmmMessageEncode", "GsmMessageEncode":
				b := fd.Body.List
				if len(b) != 1 {
					prologue[name] = "false"
					continue
				}
				sw, ok := b[0].(*ast.SwitchStmt)
				if !ok {
					prologue[name] = "false"
					continue
				}
				prologue[name] = "true"
				for _, cs := range sw.Body.List {
					cc := cs.(*ast.CaseClause)
					if cc.List == nil {
						defaults[name] = fmt.Sprint(isErrReturn(&ast.BlockStmt{List: cc.Body}))
						continue
					}
					n, ok := c.constN(cc.List[0])
					item := "DispUnknown"
					if ok && len(cc.List) == 1 && len(cc.Body) == 1 {
						if rs, ok := cc.Body[0].(*ast.ReturnStmt); ok && len(rs.Results) == 1 {
							if call, ok := rs.Results[0].(*ast.CallExpr); ok && len(call.Args) == 1 {
								if _, m, ok := c.recvField2(call.Fun); ok {
									if a0, ok := call.Args[0].(*ast.Ident); ok && a0.Name == "buffer" {
										item = fmt.Sprintf("DispEnc %s %s", n, q(m))
									}
								}
							}
						}
					}
					tables[name] = append(tables[name], item)
				}
			case "PlainNasDecode":
				plainDec = plainDecodeShape(c, fd)
			case "PlainNasEncode":
				plainEnc = plainEncodeShape(c, fd)
			}
		}
	}
	// header struct shapes and the type-octet accessors
	hdr := map[string]string{}
	for _, f := range files {
		for _, d := range f.Decls {
			fd, ok := d.(*ast.FuncDecl)
			if !ok || fd.Recv == nil || fd.Body == nil || fd.Name.Name != "GetMessageType" {
				continue
			}
			if se, ok := fd.Recv.List[0].Type.(*ast.StarExpr); ok {
				if id, ok := se.X.(*ast.Ident); ok {
					// messageType = a.Octet[k]; return messageType
					if len(fd.Body.List) == 2 {
						if as, ok := fd.Body.List[0].(*ast.AssignStmt); ok && len(as.Rhs) == 1 {
							if ix, ok := as.Rhs[0].(*ast.IndexExpr); ok {
								if n, ok := c.constN(ix.Index); ok {
									hdr[id.Name] = n
								}
							}
						}
					}
				}
			}
		}
	}
	hlen := map[string]string{}
	for _, f := range files {
		ast.Inspect(f, func(n ast.Node) bool {
			ts, ok := n.(*ast.TypeSpec)
			if !ok {
				return true
			}
			if ts.Name.Name == "GmmHeader" || ts.Name.Name == "GsmHeader" {
				if st, ok := ts.Type.(*ast.StructType); ok && len(st.Fields.List) == 1 {
					if at, ok := st.Fields.List[0].Type.(*ast.ArrayType); ok {
						if n, ok := c.constN(at.Len); ok {
							hlen[ts.Name.Name] = n
						}
					}
				}
			}
			return true
		})
	}
	// EPD constants
	_, mfiles, minfo := loadPkg(filepath.Join(repo, "nasMessage"), func(n string) bool { return n == "NAS_EPD.go" })
	epd := map[string]string{}
	for _, f := range mfiles {
		for _, d := range f.Decls {
			gd, ok := d.(*ast.GenDecl)
			if !ok || gd.Tok != token.CONST {
				continue
			}
			for _, sp := range gd.Specs {
				vs := sp.(*ast.ValueSpec)
				for _, n := range vs.Names {
					if obj, ok := minfo.Defs[n].(*types.Const); ok {
						if v, ok := coqN(obj.Val()); ok {
							epd[n.Name] = v
						}
					}
				}
			}
		}
	}
	get := func(m map[string]string, k, d string) string {
		if v, ok := m[k]; ok {
			return v
		}
		return d
	}
	var sb strings.Builder
	sb.WriteString("(* GENERATED by tools/go2coq from nas.go, nas_generated.go, nasMessage/NAS_EPD.go -- do not edit *)\n")
	sb.WriteString("From NV Require Import Lib.Base Codec.Lang.\nFrom Coq Require Import String.\n\n")
	for _, n := range []string{"GmmMessageDecode", "GsmMessageDecode", "GmmMessageEncode", "GsmMessageEncode"} {
		fmt.Fprintf(&sb, "Definition disp_%s : disp_table :=\n  mkdisp %s %s\n  %s.\n\n", n, get(prologue, n, "false"), get(defaults, n, "false"), coqList(tables[n], ";\n   "))
	}
	fmt.Fprintf(&sb, "Definition gmm_header_len : N := %s.\nDefinition gsm_header_len : N := %s.\n", get(hlen, "GmmHeader", "0"), get(hlen, "GsmHeader", "0"))
	fmt.Fprintf(&sb, "Definition gmm_type_index : N := %s.\nDefinition gsm_type_index : N := %s.\n", get(hdr, "GmmHeader", "99"), get(hdr, "GsmHeader", "99"))
	fmt.Fprintf(&sb, "Definition epd_gmm : N := %s.\nDefinition epd_gsm : N := %s.\n", get(epd, "Epd5GSMobilityManagementMessage", "999"), get(epd, "Epd5GSSessionManagementMessage", "999"))
	fmt.Fprintf(&sb, "Definition plain_decode_shape : bool := %s.\nDefinition plain_encode_shape : bool := %s.\n", plainDec, plainEnc)
	writeIfChanged(filepath.Join(out, "GenDispatch.v"), sb.String())
	_ = os.Stderr
}

// PlainNasDecode must be exactly:
//   if byteArray == nil { return errors.New } ; if len(*byteArray) == 0 { return errors.New }
//   epd := GetEPD(*byteArray) ; switch epd { case Gmm: return a.GmmMessageDecode(byteArray); case Gsm: return a.GsmMessageDecode(byteArray) } ; return fmt.Errorf
func plainDecodeShape(c *msgCtx, fd *ast.FuncDecl) string {
	b := fd.Body.List
	if len(b) != 5 {
		return "false"
	}
	isErr := func(s ast.Stmt) bool {
		r, ok := s.(*ast.ReturnStmt)
		if !ok || len(r.Results) != 1 {
			return false
		}
		call, ok := r.Results[0].(*ast.CallExpr)
		if !ok {
			return false
		}
		sel, ok := call.Fun.(*ast.SelectorExpr)
		if !ok {
			return false
		}
		p, ok := sel.X.(*ast.Ident)
		return ok && ((p.Name == "errors" && sel.Sel.Name == "New") || (p.Name == "fmt" && sel.Sel.Name == "Errorf"))
	}
	guard := func(s ast.Stmt, test func(ast.Expr) bool) bool {
		is, ok := s.(*ast.IfStmt)
		return ok && is.Init == nil && is.Else == nil && len(is.Body.List) == 1 && isErr(is.Body.List[0]) && test(is.Cond)
	}
	nilTest := func(e ast.Expr) bool {
		be, ok := e.(*ast.BinaryExpr)
		if !ok || be.Op != token.EQL {
			return false
		}
		l, ok1 := be.X.(*ast.Ident)
		r, ok2 := be.Y.(*ast.Ident)
		return ok1 && ok2 && l.Name == "byteArray" && r.Name == "nil"
	}
	emptyTest := func(e ast.Expr) bool {
		be, ok := e.(*ast.BinaryExpr)
		if !ok || be.Op != token.EQL {
			return false
		}
		n, ok := c.constN(be.Y)
		if !ok || n != "0" {
			return false
		}
		call, ok := be.X.(*ast.CallExpr)
		if !ok || len(call.Args) != 1 {
			return false
		}
		f, ok := call.Fun.(*ast.Ident)
		if !ok || f.Name != "len" {
			return false
		}
		st, ok := call.Args[0].(*ast.StarExpr)
		if !ok {
			return false
		}
		id, ok := st.X.(*ast.Ident)
		return ok && id.Name == "byteArray"
	}
	if !guard(b[0], nilTest) || !guard(b[1], emptyTest) {
		return "false"
	}
	as, ok := b[2].(*ast.AssignStmt)
	if !ok || len(as.Rhs) != 1 {
		return "false"
	}
	if call, ok := as.Rhs[0].(*ast.CallExpr); !ok || len(call.Args) != 1 {
		return "false"
	} else if f, ok := call.Fun.(*ast.Ident); !ok || f.Name != "GetEPD" {
		return "false"
	}
	sw, ok := b[3].(*ast.SwitchStmt)
	if !ok || len(sw.Body.List) != 2 {
		return "false"
	}
	want := []struct{ k, callee string }{{"Epd5GSMobilityManagementMessage", "GmmMessageDecode"}, {"Epd5GSSessionManagementMessage", "GsmMessageDecode"}}
	for i, cs := range sw.Body.List {
		cc := cs.(*ast.CaseClause)
		if len(cc.List) != 1 || len(cc.Body) != 1 {
			return "false"
		}
		sel, ok := cc.List[0].(*ast.SelectorExpr)
		if !ok || sel.Sel.Name != want[i].k {
			return "false"
		}
		rs, ok := cc.Body[0].(*ast.ReturnStmt)
		if !ok || len(rs.Results) != 1 {
			return "false"
		}
		call, ok := rs.Results[0].(*ast.CallExpr)
		if !ok || len(call.Args) != 1 {
			return "false"
		}
		if m, ok := c.recvField(call.Fun); !ok || m != want[i].callee {
			return "false"
		}
	}
	if !isErr(b[4]) {
		return "false"
	}
	return "true"
}

// PlainNasEncode must be exactly:
//   data := new(bytes.Buffer)
//   if a.GmmMessage != nil { err := a.GmmMessageEncode(data); return data.Bytes(), err }
//   else if a.GsmMessage != nil { err := a.GsmMessageEncode(data); return data.Bytes(), err }
//   return nil, fmt.Errorf(...)
func plainEncodeShape(c *msgCtx, fd *ast.FuncDecl) string {
	b := fd.Body.List
	if len(b) != 3 {
		return "false"
	}
	is, ok := b[1].(*ast.IfStmt)
	if !ok {
		return "false"
	}
	branch := func(is *ast.IfStmt, fld, callee string) bool {
		be, ok := is.Cond.(*ast.BinaryExpr)
		if !ok || be.Op != token.NEQ {
			return false
		}
		x, ok := c.recvField(be.X)
		if !ok || x != fld {
			return false
		}
		if id, ok := be.Y.(*ast.Ident); !ok || id.Name != "nil" {
			return false
		}
		if len(is.Body.List) != 2 {
			return false
		}
		as, ok := is.Body.List[0].(*ast.AssignStmt)
		if !ok || len(as.Rhs) != 1 {
			return false
		}
		call, ok := as.Rhs[0].(*ast.CallExpr)
		if !ok || len(call.Args) != 1 {
			return false
		}
		m, ok := c.recvField(call.Fun)
		if !ok || m != callee {
			return false
		}
		rs, ok := is.Body.List[1].(*ast.ReturnStmt)
		return ok && len(rs.Results) == 2
	}
	if !branch(is, "GmmMessage", "GmmMessageEncode") {
		return "false"
	}
	is2, ok := is.Else.(*ast.IfStmt)
	if !ok || is2.Else != nil || !branch(is2, "GsmMessage", "GsmMessageEncode") {
		return "false"
	}
	rs, ok := b[2].(*ast.ReturnStmt)
	if !ok || len(rs.Results) != 2 {
		return "false"
	}
	if id, ok := rs.Results[0].(*ast.Ident); !ok || id.Name != "nil" {
		return "false"
	}
	call, ok := rs.Results[1].(*ast.CallExpr)
	if !ok {
		return "false"
	}
	sel, ok := call.Fun.(*ast.SelectorExpr)
	if !ok || sel.Sel.Name != "Errorf" {
		return "false"
	}
	return "true"
}
