package main

import (
	"fmt"
	"go/ast"
	"go/constant"
	"go/importer"
	"go/parser"
	"go/token"
	"go/types"
	"os"
	"path/filepath"
	"sort"
	"strings"
)

// loadPkg parses (non-test) files of dir and type-checks them, tolerating
// errors in imports that cannot be resolved offline.
func loadPkg(dir string, only func(name string) bool) (*token.FileSet, []*ast.File, *types.Info) {
	fset := token.NewFileSet()
	ents, err := os.ReadDir(dir)
	if err != nil {
		panic(err)
	}
	var files []*ast.File
	var names []string
	for _, e := range ents {
		n := e.Name()
		if !strings.HasSuffix(n, ".go") || strings.HasSuffix(n, "_test.go") {
			continue
		}
		if only != nil && !only(n) {
			continue
		}
		names = append(names, n)
	}
	sort.Strings(names)
	for _, n := range names {
		f, err := parser.ParseFile(fset, filepath.Join(dir, n), nil, parser.ParseComments)
		if err != nil {
			panic(err)
		}
		// honour build constraints only for our own hook tag: skip files guarded by "verif"
		skip := false
		for _, cg := range f.Comments {
			if cg.Pos() < f.Package && strings.Contains(cg.Text(), "go:build verif") {
				skip = true
			}
		}
		if !skip {
			files = append(files, f)
		}
	}
	info := &types.Info{
		Types: map[ast.Expr]types.TypeAndValue{},
		Defs:  map[*ast.Ident]types.Object{},
		Uses:  map[*ast.Ident]types.Object{},
	}
	conf := types.Config{
		Importer: importer.ForCompiler(fset, "source", nil),
		Error:    func(err error) {},
	}
	_, _ = conf.Check(filepath.Base(dir), fset, files, info)
	return fset, files, info
}

type bvCtx struct {
	info   *types.Info
	recv   string         // receiver identifier
	params map[string]int // scalar value parameters -> index
	ptypes map[string]string
	bytesP string // name of the byte-slice/array parameter, if any
	result string // named result, if any
	unk    []string
}

func (c *bvCtx) unknown(what string, n ast.Node) string {
	c.unk = append(c.unk, what)
	return fmt.Sprintf("(EUnknown (* %s *))", what)
}

func coqTy(t types.Type) (string, bool) {
	if t == nil {
		return "", false
	}
	b, ok := t.Underlying().(*types.Basic)
	if !ok {
		return "", false
	}
	switch b.Kind() {
	case types.Uint8:
		return "U8", true
	case types.Uint16:
		return "U16", true
	case types.Uint32:
		return "U32", true
	case types.Uint64, types.Uint, types.Int, types.Int64, types.UntypedInt, types.Uintptr:
		return "U64", true
	}
	return "", false
}

func coqN(v constant.Value) (string, bool) {
	if v.Kind() != constant.Int {
		return "", false
	}
	if constant.Sign(v) < 0 {
		return "", false
	}
	return v.ExactString(), true
}

func (c *bvCtx) isRecvSel(e ast.Expr, field string) bool {
	s, ok := e.(*ast.SelectorExpr)
	if !ok {
		return false
	}
	id, ok := s.X.(*ast.Ident)
	return ok && id.Name == c.recv && s.Sel.Name == field
}

func (c *bvCtx) expr(e ast.Expr) string {
	if tv, ok := c.info.Types[e]; ok && tv.Value != nil {
		t, ok1 := coqTy(tv.Type)
		n, ok2 := coqN(tv.Value)
		if ok1 && ok2 {
			return fmt.Sprintf("(EConst %s %s)", t, n)
		}
		return c.unknown("constant", e)
	}
	switch x := e.(type) {
	case *ast.ParenExpr:
		return c.expr(x.X)
	case *ast.Ident:
		if k, ok := c.params[x.Name]; ok {
			return fmt.Sprintf("(EParam %d %s)", k, c.ptypes[x.Name])
		}
		return c.unknown("ident "+x.Name, e)
	case *ast.SelectorExpr:
		switch {
		case c.isRecvSel(x, "Iei"):
			return "(EFld FIei)"
		case c.isRecvSel(x, "Len"):
			return "(EFld FLen)"
		case c.isRecvSel(x, "count"):
			return "(EFld FCount)"
		case c.isRecvSel(x, "Octet"):
			if t, ok := c.info.Types[e]; ok {
				if _, isB := t.Type.Underlying().(*types.Basic); isB {
					return "(EOct 0)"
				}
			}
		}
		return c.unknown("selector", e)
	case *ast.IndexExpr:
		if c.isRecvSel(x.X, "Octet") || c.isRecvSel(x.X, "Buffer") {
			if tv, ok := c.info.Types[x.Index]; ok && tv.Value != nil {
				if n, ok := coqN(tv.Value); ok {
					return fmt.Sprintf("(EOct %s)", n)
				}
			}
		}
		return c.unknown("index", e)
	case *ast.BinaryExpr:
		op := ""
		switch x.Op {
		case token.AND:
			op = "OAnd"
		case token.OR:
			op = "OOr"
		case token.XOR:
			op = "OXor"
		case token.ADD:
			op = "OAdd"
		case token.SUB:
			op = "OSub"
		case token.SHL:
			op = "OShl"
		case token.SHR:
			op = "OShr"
		case token.AND_NOT:
			op = "OAndNot"
		default:
			return c.unknown("binop "+x.Op.String(), e)
		}
		t, ok := coqTy(c.info.Types[e].Type)
		if !ok {
			return c.unknown("binop type", e)
		}
		return fmt.Sprintf("(EBin %s %s %s %s)", op, t, c.expr(x.X), c.expr(x.Y))
	case *ast.CallExpr:
		if id, ok := x.Fun.(*ast.Ident); ok {
			if id.Name == "GetBitMask" && len(x.Args) == 2 {
				return fmt.Sprintf("(EMask %s %s)", c.expr(x.Args[0]), c.expr(x.Args[1]))
			}
			if tv, ok := c.info.Types[x.Fun]; ok && tv.IsType() && len(x.Args) == 1 {
				if t, ok := coqTy(tv.Type); ok {
					return fmt.Sprintf("(ECast %s %s)", t, c.expr(x.Args[0]))
				}
			}
		}
		return c.unknown("call", e)
	}
	return c.unknown(fmt.Sprintf("expr %T", e), e)
}

func natOpt(e ast.Expr, info *types.Info) (string, bool) {
	if e == nil {
		return "None", true
	}
	if tv, ok := info.Types[e]; ok && tv.Value != nil {
		if n, ok := coqN(tv.Value); ok {
			return "(Some " + n + "%nat)", true
		}
	}
	return "", false
}

// sliceOfRecv recognises a.Octet[lo:hi], a.Buffer[lo:hi], a.Buffer[lo:], a.Buffer
func (c *bvCtx) sliceOfRecv(e ast.Expr) (lo string, hi string, ok bool) {
	if c.isRecvSel(e, "Buffer") {
		return "0", "None", true
	}
	s, isS := e.(*ast.SliceExpr)
	if !isS || s.Slice3 {
		return "", "", false
	}
	if !(c.isRecvSel(s.X, "Octet") || c.isRecvSel(s.X, "Buffer")) {
		return "", "", false
	}
	lo = "0"
	if s.Low != nil {
		tv, ok := c.info.Types[s.Low]
		if !ok || tv.Value == nil {
			return "", "", false
		}
		n, ok := coqN(tv.Value)
		if !ok {
			return "", "", false
		}
		lo = n
	}
	hi, ok = natOpt(s.High, c.info)
	return lo, hi, ok
}

// isParamBytes recognises p or p[:] where p is the byte parameter / named result
func isNameOrFull(e ast.Expr, name string) bool {
	if name == "" {
		return false
	}
	if id, ok := e.(*ast.Ident); ok {
		return id.Name == name
	}
	if s, ok := e.(*ast.SliceExpr); ok && s.Low == nil && s.High == nil && !s.Slice3 {
		if id, ok := s.X.(*ast.Ident); ok {
			return id.Name == name
		}
	}
	return false
}

// stmts translates a function body.  resArrayLen: length of the named array
// result ("" if the result is a slice or scalar).
func (c *bvCtx) stmts(body []ast.Stmt, resArrayLen string) []string {
	var out []string
	i := 0
	for i < len(body) {
		s := body[i]
		i++
		switch x := s.(type) {
		case *ast.ReturnStmt:
			if len(x.Results) == 1 {
				if isNameOrFull(x.Results[0], c.result) {
					// handled by the preceding copy
					continue
				}
				out = append(out, fmt.Sprintf("SRet %s", c.expr(x.Results[0])))
				continue
			}
			if len(x.Results) == 0 {
				continue
			}
		case *ast.IncDecStmt:
			if x.Tok == token.INC {
				if t, ok := coqTy(c.info.Types[x.X].Type); ok && c.isRecvSel(x.X, "count") {
					out = append(out, fmt.Sprintf("SSetFld FCount (EBin OAdd %s (EFld FCount) (EConst %s 1))", t, t))
					continue
				}
			}
		case *ast.AssignStmt:
			if len(x.Lhs) == 1 && len(x.Rhs) == 1 {
				lhs, rhs := x.Lhs[0], x.Rhs[0]
				// R = make([]uint8, len(a.Buffer)-N) ; copy(R, a.Buffer[N:]) ; return R
				if id, ok := lhs.(*ast.Ident); ok && id.Name == c.result && c.result != "" && x.Tok == token.ASSIGN {
					if call, ok := rhs.(*ast.CallExpr); ok {
						if f, ok := call.Fun.(*ast.Ident); ok && f.Name == "make" && i < len(body) {
							if es, ok := body[i].(*ast.ExprStmt); ok {
								if cp, ok := es.X.(*ast.CallExpr); ok {
									if f2, ok := cp.Fun.(*ast.Ident); ok && f2.Name == "copy" && len(cp.Args) == 2 && isNameOrFull(cp.Args[0], c.result) {
										if lo, hi, ok := c.sliceOfRecv(cp.Args[1]); ok && c.makeLenMatches(call, lo) {
											out = append(out, fmt.Sprintf("SRetCopy %s %s None", lo, hi))
											i++
											continue
										}
									}
								}
							}
						}
					}
				}
				var rhsS string
				if x.Tok == token.ASSIGN {
					rhsS = c.expr(rhs)
				} else {
					op := map[token.Token]string{token.AND_ASSIGN: "OAnd", token.OR_ASSIGN: "OOr", token.XOR_ASSIGN: "OXor", token.ADD_ASSIGN: "OAdd", token.SUB_ASSIGN: "OSub", token.SHL_ASSIGN: "OShl", token.SHR_ASSIGN: "OShr"}[x.Tok]
					t, ok := coqTy(c.info.Types[lhs].Type)
					if op == "" || !ok {
						out = append(out, c.unknownStmt("assign-op"))
						continue
					}
					rhsS = fmt.Sprintf("(EBin %s %s %s %s)", op, t, c.expr(lhs), c.expr(rhs))
				}
				switch {
				case c.isRecvSel(lhs, "Iei"):
					out = append(out, "SSetFld FIei "+rhsS)
					continue
				case c.isRecvSel(lhs, "Len"):
					out = append(out, "SSetFld FLen "+rhsS)
					continue
				case c.isRecvSel(lhs, "count"):
					out = append(out, "SSetFld FCount "+rhsS)
					continue
				case c.isRecvSel(lhs, "Octet"):
					out = append(out, "SSetOct 0 "+rhsS)
					continue
				case c.isRecvSel(lhs, "Buffer"):
					// a.Buffer = make([]uint8, e)
					if call, ok := rhs.(*ast.CallExpr); ok && x.Tok == token.ASSIGN {
						if f, ok := call.Fun.(*ast.Ident); ok && f.Name == "make" && len(call.Args) == 2 {
							out = append(out, "SMakeBuf "+c.expr(call.Args[1]))
							// drop the EUnknown recorded for the rhs as a whole
							c.dropLastUnknownFor("call")
							continue
						}
					}
				}
				if ix, ok := lhs.(*ast.IndexExpr); ok && (c.isRecvSel(ix.X, "Octet") || c.isRecvSel(ix.X, "Buffer")) {
					if tv, ok := c.info.Types[ix.Index]; ok && tv.Value != nil {
						if n, ok := coqN(tv.Value); ok {
							out = append(out, fmt.Sprintf("SSetOct %s %s", n, rhsS))
							continue
						}
					}
				}
			}
		case *ast.ExprStmt:
			if call, ok := x.X.(*ast.CallExpr); ok {
				// receiver.method(args)
				if sel, ok := call.Fun.(*ast.SelectorExpr); ok {
					if id, ok := sel.X.(*ast.Ident); ok && id.Name == c.recv {
						var as []string
						for _, a := range call.Args {
							as = append(as, c.expr(a))
						}
						out = append(out, fmt.Sprintf("SCallM %q%%string [%s]", sel.Sel.Name, strings.Join(as, "; ")))
						continue
					}
				}
				if f, ok := call.Fun.(*ast.Ident); ok && f.Name == "copy" && len(call.Args) == 2 {
					// copy(a.X[lo:hi], p[:])
					if lo, hi, ok := c.sliceOfRecv(call.Args[0]); ok && isNameOrFull(call.Args[1], c.bytesP) {
						out = append(out, fmt.Sprintf("SCopyIn %s %s", lo, hi))
						continue
					}
					// copy(R[:], a.X[lo:hi]) ; return R   with R a named array result
					if lo, hi, ok := c.sliceOfRecv(call.Args[1]); ok && isNameOrFull(call.Args[0], c.result) && resArrayLen != "" {
						out = append(out, fmt.Sprintf("SRetCopy %s %s (Some %s%%nat)", lo, hi, resArrayLen))
						continue
					}
				}
			}
		}
		out = append(out, c.unknownStmt(fmt.Sprintf("%T", s)))
	}
	return out
}

func (c *bvCtx) dropLastUnknownFor(what string) {
	if n := len(c.unk); n > 0 && c.unk[n-1] == what {
		c.unk = c.unk[:n-1]
	}
}

// makeLenMatches checks make([]uint8, len(a.Buffer)) (lo = 0) or make([]uint8, len(a.Buffer)-lo)
func (c *bvCtx) makeLenMatches(call *ast.CallExpr, lo string) bool {
	if len(call.Args) != 2 {
		return false
	}
	isLenBuf := func(e ast.Expr) bool {
		cl, ok := e.(*ast.CallExpr)
		if !ok || len(cl.Args) != 1 {
			return false
		}
		f, ok := cl.Fun.(*ast.Ident)
		return ok && f.Name == "len" && c.isRecvSel(cl.Args[0], "Buffer")
	}
	a := call.Args[1]
	if lo == "0" {
		return isLenBuf(a)
	}
	if b, ok := a.(*ast.BinaryExpr); ok && b.Op == token.SUB && isLenBuf(b.X) {
		if tv, ok := c.info.Types[b.Y]; ok && tv.Value != nil {
			n, ok := coqN(tv.Value)
			return ok && n == lo
		}
	}
	return false
}

func (c *bvCtx) unknownStmt(what string) string {
	c.unk = append(c.unk, "stmt "+what)
	return fmt.Sprintf("SUnknown (* %s *)", what)
}

// newCtx prepares the context for a method declaration.
func newCtx(info *types.Info, fd *ast.FuncDecl) *bvCtx {
	c := &bvCtx{info: info, params: map[string]int{}, ptypes: map[string]string{}}
	if fd.Recv != nil && len(fd.Recv.List) == 1 && len(fd.Recv.List[0].Names) == 1 {
		c.recv = fd.Recv.List[0].Names[0].Name
	}
	k := 0
	for _, f := range fd.Type.Params.List {
		for _, n := range f.Names {
			if t, ok := coqTy(info.Types[f.Type].Type); ok {
				c.params[n.Name] = k
				c.ptypes[n.Name] = t
				k++
			} else {
				c.bytesP = n.Name
			}
		}
	}
	if fd.Type.Results != nil && len(fd.Type.Results.List) == 1 && len(fd.Type.Results.List[0].Names) == 1 {
		c.result = fd.Type.Results.List[0].Names[0].Name
	}
	return c
}

func coqList(items []string, sep string) string {
	return "[" + strings.Join(items, sep) + "]"
}

func genCounter(repo, out string) {
	_, files, info := loadPkg(filepath.Join(repo, "security"), func(n string) bool { return n == "counter.go" })
	var sb strings.Builder
	sb.WriteString("(* GENERATED by tools/go2coq from security/counter.go -- do not edit *)\n")
	sb.WriteString("From NV Require Import Lib.Base Lib.BV.\nFrom Coq Require Import String.\n\n")
	var entries []string
	var unk []string
	for _, f := range files {
		for _, d := range f.Decls {
			fd, ok := d.(*ast.FuncDecl)
			if !ok || fd.Recv == nil || fd.Body == nil {
				continue
			}
			c := newCtx(info, fd)
			body := c.stmts(fd.Body.List, "")
			entries = append(entries, fmt.Sprintf("  (%q%%string, %s)", fd.Name.Name, coqList(body, "; ")))
			for _, u := range c.unk {
				unk = append(unk, fd.Name.Name+": "+u)
			}
		}
	}
	// struct shape: exactly one field `count uint32`
	shape := "false"
	for _, f := range files {
		ast.Inspect(f, func(n ast.Node) bool {
			ts, ok := n.(*ast.TypeSpec)
			if !ok || ts.Name.Name != "Count" {
				return true
			}
			if st, ok := ts.Type.(*ast.StructType); ok && len(st.Fields.List) == 1 && len(st.Fields.List[0].Names) == 1 && st.Fields.List[0].Names[0].Name == "count" {
				if id, ok := st.Fields.List[0].Type.(*ast.Ident); ok && id.Name == "uint32" {
					shape = "true"
				}
			}
			return false
		})
	}
	sb.WriteString("Definition counter_is_single_uint32 : bool := " + shape + ".\n\n")
	sb.WriteString("Definition counter_methods : list (string * list stmt) :=\n" + coqList(entries, ";\n") + ".\n\n")
	var us []string
	for _, u := range unk {
		us = append(us, fmt.Sprintf("%q%%string", u))
	}
	sb.WriteString("Definition counter_unknown : list string := " + coqList(us, "; ") + ".\n")
	writeIfChanged(filepath.Join(out, "GenCounter.v"), sb.String())
}
